"""Probe used by C27's launch-mode arm: a module that declares its own
fixed-entry dictionary type (as user code does), exercised in a fresh
interpreter started in different ways (``python -m sim.fd_probe``, ``python
sim/fd_probe.py``, ``import sim.fd_probe``).  However the defining module was
launched, dictionaries of the type must hold only declared keys and survive
pickling/copying as equal dictionaries of the same type.

PYTHONPATH must name the repository tree under test (and /verif)."""
import copy
import pickle
import sys

from vc2_conformance.fixeddict import fixeddict, Entry, FixedDictKeyError

Probe = fixeddict("Probe", Entry("alpha"), Entry("beta"), Entry("_hidden"))


def main():
    problems = []
    d = Probe(alpha=1)
    d["beta"] = [1, 2]
    d.update({"_hidden": "x"})
    try:
        d["gamma"] = 3
        problems.append("undeclared key accepted")
    except FixedDictKeyError:
        pass
    for proto in range(0, pickle.HIGHEST_PROTOCOL + 1):
        try:
            e = pickle.loads(pickle.dumps(d, protocol=proto))
        except Exception as exc:  # noqa: BLE001
            problems.append("pickle protocol %d raised %s: %s" % (proto, type(exc).__name__, exc))
            continue
        if type(e) is not type(d) or dict(e) != dict(d):
            problems.append("pickle protocol %d returned %r (%s)" % (proto, e, type(e).__name__))
    for name, fn in (("copy.copy", copy.copy), ("copy.deepcopy", copy.deepcopy), (".copy()", lambda x: x.copy())):
        try:
            e = fn(d)
        except Exception as exc:  # noqa: BLE001
            problems.append("%s raised %s: %s" % (name, type(exc).__name__, exc))
            continue
        if type(e) is not type(d) or dict(e) != dict(d):
            problems.append("%s returned %r (%s)" % (name, e, type(e).__name__))
    if problems:
        print("FAIL: " + "; ".join(problems))
        return 1
    print("OK")
    return 0


if __name__ == "__main__":
    sys.exit(main())
