"""Common core of the simulator: seed derivation, event digests, the SimFile
seam object, the batch runner, the minimiser, replay files, known findings and
the evidence writer.  See DESIGN.md section 3.

Everything that makes a choice draws from a ``random.Random`` derived from
VERIF_SEED; nothing here uses ``hash()``, set iteration order, ``id()``, a real
clock or a PID to make a choice.  (``time.time`` is used only to report wall
time and to stop the *minimiser* early, which never changes a verdict.)
"""

import faulthandler
import hashlib
import json
import os
import random
import subprocess
import sys
import time
import traceback
from collections import Counter

REPO = os.environ.get("VERIF_REPO", "/repo")
VERIF = os.path.dirname(os.path.dirname(os.path.abspath(__file__)))
# Where evidence and replay files are written.  Always /verif for the
# registered checks; tools/eval_mutant.py redirects it so that runs against a
# seeded mutant never overwrite the evidence of the real tree.
OUT = os.environ.get("VERIF_OUT", VERIF)
DEFAULT_SEED = 20260921
PY = "/venv/bin/python"


def ensure_repo():
    """Put /repo's working tree first on sys.path and assert that is what got
    imported (the checks must rebuild from the current working tree)."""
    if not sys.path or sys.path[0] != REPO:
        sys.path.insert(0, REPO)
    import vc2_conformance

    got = os.path.realpath(vc2_conformance.__file__)
    want = os.path.realpath(REPO) + os.sep
    if not got.startswith(want):
        raise HarnessError("vc2_conformance imported from %s, not %s" % (got, REPO))


class HarnessError(Exception):
    """A problem in the machinery, never a verdict about the repository."""


class OutOfScope(BaseException):
    """Raised by the scope guard: the artefact declares sizes above the
    bounds the property excludes.  BaseException so that no ``except
    Exception`` in the code under test can swallow it."""


class StepBudgetExceeded(BaseException):
    """A sequential reader issued far more read() calls on a SimFile than the
    file has bytes: it is not going to terminate (the deterministic, replayable
    stand-in for a hang; a loop that spins without reading is only stopped by
    the per-chunk wall-clock guard, which is a harness timeout, not a verdict)."""


_SEAM_NAMES = ("SimFile", "SimFSFile", "SimFS", "OsShim", "_PathShim", "TimeShim", "GlobShim", "ShutilShim", "_TextWriter")


def check_seam_gap(exc):
    """The code under test used a part of the file/os/time protocol that a
    simulated seam object does not implement: a gap in the HARNESS, which must
    stop the check (exit 3) rather than be mistaken for behaviour of the
    repository (a crash, a rejection, or an unparseable input)."""
    if isinstance(exc, (AttributeError, TypeError, NotImplementedError)) and any(("'%s'" % n) in str(exc) or ("%s." % n) in str(exc) for n in _SEAM_NAMES):
        raise HarnessError("simulated seam object lacks something the code under test uses: %r" % (exc,))


def get_verif_seed():
    v = os.environ.get("VERIF_SEED", "")
    try:
        return int(v)
    except ValueError:
        return DEFAULT_SEED


def derive_seed(verif_seed, sim, prop, r):
    h = hashlib.sha256(("%d/%s/%s/%s" % (verif_seed, sim, prop, r)).encode()).digest()
    return int.from_bytes(h[:8], "big")


def rng_for(verif_seed, sim, prop, r):
    return random.Random(derive_seed(verif_seed, sim, prop, r))


def jdump(obj):
    return json.dumps(obj, sort_keys=True, separators=(",", ":"), default=_jdefault)


def _jdefault(o):
    if isinstance(o, (bytes, bytearray)):
        return {"__hex__": bytes(o).hex()}
    if isinstance(o, (set, frozenset)):
        return sorted(o)
    if isinstance(o, tuple):
        return list(o)
    try:
        return int(o)
    except Exception:
        return repr(o)


def digest_of(events):
    return hashlib.sha256(repr(events).encode()).hexdigest()[:24]


# --------------------------------------------------------------------------
# The file seam
# --------------------------------------------------------------------------


class SimFile(object):
    """In-memory binary file with the subset of the file protocol the
    repository uses.  Counts every call (``reads``/``writes``/``seeks``) — the
    read counter is the logical clock of the sequential readers."""

    def __init__(self, data=b"", name="<sim>"):
        self._buf = bytearray(data)
        self._pos = 0
        self.name = name
        self.reads = 0
        self.writes = 0
        self.seeks = 0
        self.flushes = 0
        self.closed = False
        self.read_budget = None

    # --- reading
    def read(self, n=-1):
        self.reads += 1
        if self.read_budget is not None and self.reads > self.read_budget:
            raise StepBudgetExceeded("%d read() calls on a %d-byte file" % (self.reads, len(self._buf)))
        if n is not None and not -(1 << 63) <= n < (1 << 63):
            # like a real file object: the count has to fit a C ssize_t
            raise OverflowError("Python int too large to convert to C ssize_t")
        if n is None or n < 0:
            n = len(self._buf) - self._pos
        out = bytes(self._buf[self._pos : self._pos + n])
        self._pos += len(out)
        return out

    def readinto(self, b):
        data = self.read(len(b))
        b[: len(data)] = data
        return len(data)

    readinto1 = readinto

    def read1(self, n=-1):
        return self.read(n)

    def readall(self):
        return self.read(-1)

    def isatty(self):
        return False

    def fileno(self):
        import io

        raise io.UnsupportedOperation("fileno")

    def truncate(self, size=None):
        size = self._pos if size is None else size
        del self._buf[size:]
        return size

    # --- writing
    def write(self, b):
        self.writes += 1
        b = bytes(b)
        if self._pos > len(self._buf):
            self._buf.extend(b"\x00" * (self._pos - len(self._buf)))
        self._buf[self._pos : self._pos + len(b)] = b
        self._pos += len(b)
        return len(b)

    def seek(self, off, whence=0):
        self.seeks += 1
        if not -(1 << 63) <= off < (1 << 63):
            # like a real file object: the offset has to fit a C off_t
            raise OverflowError("Python int too large to convert to C long")
        if whence == 0:
            self._pos = off
        elif whence == 1:
            self._pos += off
        else:
            self._pos = len(self._buf) + off
        if self._pos < 0:
            self._pos = 0
            raise ValueError("negative seek position")
        return self._pos

    def tell(self):
        return self._pos

    def flush(self):
        self.flushes += 1

    def close(self):
        self.closed = True

    def getvalue(self):
        return bytes(self._buf)

    def readable(self):
        return True

    def writable(self):
        return True

    def seekable(self):
        return True

    def __enter__(self):
        return self

    def __exit__(self, *a):
        self.close()
        return False


# --------------------------------------------------------------------------
# Outcomes
# --------------------------------------------------------------------------

OK, VIOLATION, DISCARD = "ok", "violation", "discard"


class Outcome(object):
    __slots__ = ("status", "sig", "detail", "digest", "stats", "nontrivial", "key", "ticks")

    def __init__(self, status, events, sig=None, detail="", stats=None, nontrivial=False, key=None, ticks=0):
        self.status = status
        self.sig = sig
        self.detail = detail
        self.digest = digest_of(events)
        self.stats = stats or {}
        self.nontrivial = nontrivial
        self.key = key
        self.ticks = ticks

    def to_json(self):
        return {
            "status": self.status,
            "sig": self.sig,
            "detail": self.detail,
            "digest": self.digest,
            "stats": dict(self.stats),
            "nontrivial": self.nontrivial,
            "key": self.key,
        }


def repo_frame(exc):
    """file:function of the innermost frame that lies inside the repository
    (line numbers deliberately left out so that a signature survives unrelated
    edits)."""
    tb = exc.__traceback__
    best = None
    repo = os.path.realpath(REPO) + os.sep
    while tb is not None:
        fn = os.path.realpath(tb.tb_frame.f_code.co_filename)
        if fn.startswith(repo):
            best = "%s:%s" % (fn[len(repo) :], tb.tb_frame.f_code.co_name)
        tb = tb.tb_next
    return best or "?"


def exc_sig(oracle, exc):
    check_seam_gap(exc)
    return "%s/%s@%s" % (oracle, type(exc).__name__, repo_frame(exc))


def short_tb(exc, limit=6):
    return "".join(traceback.format_exception(type(exc), exc, exc.__traceback__)[-limit:])


# --------------------------------------------------------------------------
# Spec interface
# --------------------------------------------------------------------------


class Spec(object):
    """One property's simulated check.

    generate(rng, idx, tier) -> JSON-able case (explicit workload + op/fault list)
    execute(case)            -> Outcome  (pure function of the case and the code)
    shrink(case)             -> iterator of strictly simpler cases
    """

    prop = "C00"
    sim = "?"
    title = ""
    rule = ""
    components = {"real": [], "stub": []}
    assumptions = []
    quick_runs = 1000
    thorough_runs = 10000
    chunk = 100
    chunk_timeout = 600

    # --- isolation invariant (specs that run large parts of the library)
    guard_globals = False

    def guarded_execute(self, case):
        """execute() plus the isolation invariant: a run must leave the
        library's process-global tables (vc2_data_tables.*, the level ordering
        table) exactly as it found them.  A run that mutates one would make
        every later execution in the process depend on history (nothing would
        replay), and it is precisely the kind of state leak between sequences /
        runs / worker commands that C10 and C24 forbid.  The table is restored
        so that later runs are unaffected."""
        if not self.guard_globals:
            return self.execute(case)
        before = global_tables_digest()
        if _PRISTINE_DIGEST and before != _PRISTINE_DIGEST[0]:
            # something outside a guarded run left a table changed: every run
            # starts from the pristine tables
            restore_global_tables()
            before = global_tables_digest()
        out = self.execute(case)
        after = global_tables_digest()
        if after != before:
            changed = sorted(n for n in after if after[n] != before.get(n))
            restore_global_tables()
            if out.status != VIOLATION:
                out = Outcome(
                    VIOLATION,
                    [("global-table-mutated", changed, out.digest)],
                    sig="%s/process-global-table-mutated/%s" % (self.prop, ",".join(changed)),
                    detail="executing this case changed the library's process-global table(s) %s — state leaks from one picture/sequence/run into every later one in the process" % ", ".join(changed),
                    stats=out.stats,
                    nontrivial=True,
                    key=out.key,
                    ticks=out.ticks,
                )
        return out

    def setup(self, verif_seed, tier):
        pass

    def prewarm(self, verif_seed, tier, workers):
        """Called once in the parent before the run workers are forked; may
        fill pure caches (never changes any result)."""

    def generate(self, rng, idx, tier):
        raise NotImplementedError

    def execute(self, case):
        raise NotImplementedError

    def shrink(self, case):
        faults = case.get("faults")
        if isinstance(faults, list):
            for c in shrink_list(faults):
                d = dict(case)
                d["faults"] = c
                yield d

    def extra_evidence(self, merged):
        return {}


_PRISTINE = {}
_PRISTINE_DIGEST = []


def _tables():
    import vc2_data_tables as T
    from vc2_conformance.level_constraints import LEVEL_SEQUENCE_RESTRICTIONS

    out = {"vc2_data_tables." + n: getattr(T, n) for n in dir(T) if n.isupper() and isinstance(getattr(T, n), (dict, list))}
    out["level_constraints.LEVEL_SEQUENCE_RESTRICTIONS"] = LEVEL_SEQUENCE_RESTRICTIONS
    return out


def global_tables_digest():
    import copy

    tabs = _tables()
    d = {n: hash(repr(t)) for n, t in tabs.items()}
    if not _PRISTINE:
        for n, t in tabs.items():
            _PRISTINE[n] = copy.deepcopy(t)
        _PRISTINE_DIGEST.append(d)
    return d


def restore_global_tables():
    import copy

    for n, t in _tables().items():
        good = _PRISTINE[n]
        if repr(t) != repr(good):
            if isinstance(t, dict):
                t.clear()
                t.update(copy.deepcopy(good))
            else:
                del t[:]
                t.extend(copy.deepcopy(good))


def shrink_list(xs):
    """Candidates for a shorter list: halves first, then single removals."""
    n = len(xs)
    if n == 0:
        return
    if n > 2:
        yield xs[: n // 2]
        yield xs[n // 2 :]
    for i in range(n):
        yield xs[:i] + xs[i + 1 :]


def shrink_int(v, floor=0):
    seen = set()
    for c in (floor, floor + 1, v // 2, v - 1):
        if floor <= c < v and c not in seen:
            seen.add(c)
            yield c


# --------------------------------------------------------------------------
# Worker side
# --------------------------------------------------------------------------

_SPECS = {}


def register(spec):
    _SPECS[spec.prop] = spec
    return spec


def get_spec(prop):
    import sim.registry  # noqa: F401  (populates _SPECS)

    return _SPECS[prop]


def _pad_call(n, fn, arg):
    """Call fn(arg) under n extra Python frames (see _run_chunk)."""
    if n <= 0:
        return fn(arg)
    return _pad_call(n - 1, fn, arg)


def _run_chunk(args):
    # CPython >= 3.11 keeps frames on a data stack of 16 KiB chunks which are
    # mmap'ed/munmap'ed whenever the call depth crosses a chunk boundary; if the
    # hot call depth of a run happens to straddle one, every crossing costs two
    # system calls and four page faults.  VERIF_PAD shifts the alignment (speed
    # only: no effect on any result).
    pad = int(os.environ.get("VERIF_PAD", "0") or 0)
    return _pad_call(pad, _run_chunk_inner, args)


# (start, stop) of every chunk this process has executed, in order: what a run
# may depend on if the code under test keeps process-global state
_PROCESS_HISTORY = []


def _run_chunk_inner(args):
    prop, verif_seed, tier, start, stop = args
    spec = get_spec(prop)
    prior = list(_PROCESS_HISTORY)
    _PROCESS_HISTORY.append((start, stop))
    faulthandler.dump_traceback_later(spec.chunk_timeout, exit=True)
    try:
        spec.setup(verif_seed, tier)
        stats = Counter()
        digests = []
        keys = Counter()
        viol = {}
        samples = []
        n_ok = n_disc = n_viol = n_nontriv = 0
        ticks = 0
        nontriv_digests = []
        for idx in range(start, stop):
            rng = rng_for(verif_seed, spec.sim, spec.prop, idx)
            case = spec.generate(rng, idx, tier)
            out = spec.guarded_execute(case)
            for k, v in out.stats.items():
                stats[k] += v
            ticks += out.ticks
            digests.append(out.digest)
            if out.key is not None:
                keys[out.key] += 1
            if out.status == OK:
                n_ok += 1
            elif out.status == DISCARD:
                n_disc += 1
            else:
                n_viol += 1
                if out.sig not in viol:
                    viol[out.sig] = {"idx": idx, "case": case, "outcome": out.to_json()}
            if out.nontrivial and out.status != DISCARD:
                n_nontriv += 1
                nontriv_digests.append(out.digest)
            if len(samples) < 1 and out.status == OK and out.nontrivial:
                samples.append({"run": idx, "case": case, "outcome": out.to_json()})
        for _sig in viol:
            viol[_sig]["prior"] = prior
            viol[_sig]["chunk_start"] = start
        return {
            "start": start,
            "stats": dict(stats),
            "digests": digests,
            "nontriv_digests": nontriv_digests,
            "keys": dict(keys),
            "viol": viol,
            "samples": samples,
            "n_ok": n_ok,
            "n_disc": n_disc,
            "n_viol": n_viol,
            "ticks": ticks,
        }
    finally:
        faulthandler.cancel_dump_traceback_later()


# --------------------------------------------------------------------------
# Known findings
# --------------------------------------------------------------------------

KNOWN_FINDINGS_FILE = os.path.join(VERIF, "known_findings.json")


def load_known_findings(prop):
    if not os.path.exists(KNOWN_FINDINGS_FILE):
        return []
    with open(KNOWN_FINDINGS_FILE) as f:
        data = json.load(f)
    return [e for e in data.get("findings", []) if e.get("property") == prop]


# --------------------------------------------------------------------------
# Minimiser and replay
# --------------------------------------------------------------------------


def minimise(spec, case, sig, budget_s=60.0, max_exec=3000):
    t0 = time.time()
    n = 0
    improved = True
    while improved:
        improved = False
        for cand in spec.shrink(case):
            if n >= max_exec or time.time() - t0 > budget_s:
                return case, n
            n += 1
            try:
                out = spec.guarded_execute(cand)
            except OutOfScope:
                continue
            if out.status == VIOLATION and out.sig == sig:
                case = cand
                improved = True
                break
    return case, n


def repo_head():
    try:
        head = subprocess.check_output(["git", "-C", REPO, "rev-parse", "HEAD"], stderr=subprocess.DEVNULL).decode().strip()
        dirty = bool(subprocess.check_output(["git", "-C", REPO, "status", "--porcelain", "-uno"], stderr=subprocess.DEVNULL).strip())
    except Exception:
        head, dirty = "?", False
    return head, dirty


def write_replay(spec, verif_seed, idx, case, outcome_json, minimised_from=None, history=None, tier="quick", history_indices=None, prewarm_workers=None):
    d = os.path.join(OUT, "replays")
    os.makedirs(d, exist_ok=True)
    sig_h = hashlib.sha256((outcome_json["sig"] or "").encode()).hexdigest()[:10]
    path = os.path.join(d, "%s-%s-%d.json" % (spec.prop, sig_h, verif_seed))
    head, dirty = repo_head()
    with open(path, "w") as f:
        json.dump(
            {
                "property": spec.prop,
                "simulation": spec.sim,
                "verif_seed": verif_seed,
                "run_index": idx,
                "signature": outcome_json["sig"],
                "detail": outcome_json["detail"],
                "digest": outcome_json["digest"],
                "case": case,
                "history": history or [],
                "history_indices": history_indices,
                "prewarm_workers": prewarm_workers,
                "tier": tier,
                "minimised_from_ops": minimised_from,
                "repo_head": head,
                "repo_dirty": dirty,
            },
            f,
            indent=1,
            sort_keys=True,
            default=_jdefault,
        )
    return path


def replay_file(path, quiet=False):
    """Execute the explicit case in a replay file.  Returns (reproduced,
    outcome)."""
    with open(path) as f:
        rep = json.load(f)
    spec = get_spec(rep["property"])
    spec.setup(rep.get("verif_seed", DEFAULT_SEED), rep.get("tier", "quick"))
    hist_idx = rep.get("history_indices")
    if hist_idx is not None:
        # a violation that needs the worker process's earlier runs: repeat what
        # that process did, in order — the parent's pre-warm, then generation
        # (which itself runs repository code) and execution of each earlier run
        spec.prewarm(rep["verif_seed"], rep.get("tier", "quick"), rep.get("prewarm_workers", 1))
        for i, stored in zip(hist_idx, rep.get("history") or []):
            prev = spec.generate(rng_for(rep["verif_seed"], spec.sim, spec.prop, i), i, rep.get("tier", "quick"))
            if jdump(prev) != jdump(stored):
                raise HarnessError("history replay: run %d regenerates differently from the stored case" % i)
            try:
                spec.guarded_execute(prev)
            except OutOfScope:
                pass
        target = spec.generate(rng_for(rep["verif_seed"], spec.sim, spec.prop, rep["run_index"]), rep["run_index"], rep.get("tier", "quick"))
        if jdump(target) != jdump(rep["case"]):
            raise HarnessError("history replay: the failing run regenerates differently from the stored case")
        # (the regenerated object, not its JSON copy: pure caches keyed on the
        # case must hit exactly as they did in the worker)
        rep = dict(rep, case=target)
    for prev in ([] if hist_idx is not None else (rep.get("history") or [])):
        # earlier runs of the same process that the violation needs (the code
        # under test carried state from them); their own verdicts are not
        # judged here
        try:
            spec.guarded_execute(prev)
        except OutOfScope:
            pass
    out = spec.guarded_execute(rep["case"])
    reproduced = out.status == VIOLATION and out.sig == rep["signature"]
    same_digest = out.digest == rep["digest"]
    if not quiet:
        print("replay %s: status=%s sig=%s digest_match=%s" % (path, out.status, out.sig, same_digest))
        if out.detail:
            print(out.detail)
    return reproduced, same_digest, out, rep


def replay_in_fresh_interpreter(path):
    """Run the replay in a fresh interpreter with another hash seed; returns
    (exit status, stdout)."""
    env = dict(os.environ)
    env["PYTHONHASHSEED"] = "12345"
    env["VERIF_NO_REEXEC"] = "1"
    p = subprocess.run(
        [PY, os.path.join(VERIF, "bin", "check"), "replay", path],
        env=env,
        stdout=subprocess.PIPE,
        stderr=subprocess.STDOUT,
        timeout=600,
    )
    return p.returncode, p.stdout.decode(errors="replace")


# --------------------------------------------------------------------------
# Process-history fallback
# --------------------------------------------------------------------------


def history_test_main(argv):
    """``bin/check history-test <job.json>``: in THIS fresh process, regenerate
    and execute the listed run indices in order, then the target run; exit 1
    iff the target run shows the recorded violation signature."""
    with open(argv[0]) as f:
        job = json.load(f)
    spec = get_spec(job["property"])
    spec.setup(job["verif_seed"], job["tier"])
    # the worker was forked from a parent that had pre-warmed its caches by
    # running repository code: repeat that, so that this process starts from
    # the same state of the code under test
    spec.prewarm(job["verif_seed"], job["tier"], job.get("workers", 1))
    faulthandler.dump_traceback_later(1800, exit=True)

    def gen(i):
        return spec.generate(rng_for(job["verif_seed"], spec.sim, spec.prop, i), i, job["tier"])

    for i in job["indices"]:
        try:
            spec.guarded_execute(gen(i))
        except OutOfScope:
            pass
    out = spec.guarded_execute(job["target_case"] if job.get("target_case") is not None else gen(job["target_idx"]))
    hit = out.status == VIOLATION and out.sig == job["sig"]
    print("history-test: %d earlier runs, target status=%s sig=%s -> %s" % (len(job["indices"]), out.status, out.sig, "REPRODUCED" if hit else "not reproduced"))
    return 1 if hit else 0


def history_fallback(spec, verif_seed, tier, sig, v, budget_s=900.0, max_tests=60, workers=1):
    """A violation that does not reproduce from its case alone may need the
    earlier runs of its worker process (the code under test kept
    process-global state: a memo cache, a mutated default, a class attribute).
    Re-create that history in fresh interpreters, reduce it by delta debugging
    and return (history cases, target case) — or None if even the full history
    does not reproduce it (then it really is harness nondeterminism)."""
    indices = []
    for a, b in v.get("prior", []):
        indices.extend(range(a, b))
    indices.extend(range(v.get("chunk_start", v["idx"]), v["idx"]))
    if not indices:
        return None
    t0 = time.time()
    scratch = os.path.join(OUT, "replays")
    os.makedirs(scratch, exist_ok=True)
    job_path = os.path.join(scratch, ".history-job-%s-%d.json" % (spec.prop, os.getpid()))
    tests = [0]

    def test(idxs):
        tests[0] += 1
        with open(job_path, "w") as f:
            json.dump({"property": spec.prop, "verif_seed": verif_seed, "tier": tier, "indices": idxs, "target_idx": v["idx"], "target_case": None, "sig": sig, "workers": workers}, f)
        env = dict(os.environ)
        env["PYTHONHASHSEED"] = "12345"
        env["VERIF_NO_REEXEC"] = "1"
        try:
            p = subprocess.run([PY, os.path.join(VERIF, "bin", "check"), "history-test", job_path], env=env, stdout=subprocess.PIPE, stderr=subprocess.STDOUT, timeout=1800)
        except subprocess.TimeoutExpired:
            return False
        return p.returncode == 1

    try:
        # the failing chunk's own prefix first (cheapest), then everything
        own = list(range(v.get("chunk_start", v["idx"]), v["idx"]))
        if own and test(own):
            cur = own
        elif len(indices) > len(own) and test(indices):
            cur = indices
        else:
            return None
        # ddmin over the earlier runs
        n = 2
        while len(cur) >= 2 and tests[0] < max_tests and time.time() - t0 < budget_s:
            size = max(1, len(cur) // n)
            parts = [cur[i : i + size] for i in range(0, len(cur), size)]
            reduced = False
            for part in parts:  # a single part suffices?
                if tests[0] >= max_tests:
                    break
                if len(part) < len(cur) and test(part):
                    cur, n, reduced = part, 2, True
                    break
            if not reduced:
                for k in range(len(parts)):  # a complement suffices?
                    if tests[0] >= max_tests:
                        break
                    comp = [x for j, pp in enumerate(parts) if j != k for x in pp]
                    if comp and len(comp) < len(cur) and test(comp):
                        cur, n, reduced = comp, max(n - 1, 2), True
                        break
            if not reduced:
                if n >= len(cur):
                    break
                n = min(len(cur), n * 2)
        if len(cur) == 1 and tests[0] < max_tests and test([]):
            cur = []
    finally:
        try:
            os.remove(job_path)
        except OSError:
            pass

    def gen(i):
        return spec.generate(rng_for(verif_seed, spec.sim, spec.prop, i), i, tier)

    return [gen(i) for i in cur], gen(v["idx"]), len(indices), tests[0], list(cur)


# --------------------------------------------------------------------------
# The batch runner
# --------------------------------------------------------------------------


def run_check(spec, tier, verif_seed, n_runs=None, workers=None, first_run=0):
    from concurrent.futures import ProcessPoolExecutor
    from concurrent.futures.process import BrokenProcessPool
    import multiprocessing

    t0 = time.time()
    if n_runs is None:
        n_runs = spec.thorough_runs if tier == "thorough" else spec.quick_runs
    if workers is None:
        workers = int(os.environ.get("VERIF_WORKERS", "0")) or min(16, os.cpu_count() or 1)

    # --- known findings first: replay each recorded one
    known = load_known_findings(spec.prop)
    known_sigs = {}
    for e in known:
        if e.get("status") != "known":
            continue
        rp = os.path.join(VERIF, e["replay"])
        try:
            reproduced, _, _, _ = replay_file(rp, quiet=True)
        except Exception as exc:  # a broken replay file is a harness problem
            print("HARNESS-ERROR known-finding replay failed: %r" % (exc,))
            return 3
        if reproduced:
            print("KNOWN-FINDING: property=%s %s" % (spec.prop, e["what_fails"]))
            known_sigs[e["signature"]] = e
        else:
            print("note: known finding no longer reproduces (%s)" % e["signature"])

    chunks = []
    i = first_run
    end = first_run + n_runs
    while i < end:
        j = min(end, i + spec.chunk)
        chunks.append((spec.prop, verif_seed, tier, i, j))
        i = j

    results = []
    try:
        spec.setup(verif_seed, tier)
        spec.prewarm(verif_seed, tier, workers)
        if workers <= 1:
            for c in chunks:
                results.append(_run_chunk(c))
        else:
            import gc

            ctx = multiprocessing.get_context("fork")
            gc.collect()
            gc.freeze()  # keep the pre-warmed caches out of the workers' GC passes (no copy-on-write storms)
            with ProcessPoolExecutor(max_workers=workers, mp_context=ctx) as ex:
                for r in ex.map(_run_chunk, chunks):
                    results.append(r)
    except BrokenProcessPool:
        print("HARNESS-TIMEOUT property=%s a worker died or exceeded %ds" % (spec.prop, spec.chunk_timeout))
        return 3
    except HarnessError as exc:
        print("HARNESS-ERROR property=%s %s" % (spec.prop, exc))
        return 3
    except Exception as exc:
        print("HARNESS-ERROR property=%s %r" % (spec.prop, exc))
        traceback.print_exc()
        return 3

    results.sort(key=lambda r: r["start"])
    stats = Counter()
    keys = Counter()
    digests = set()
    nontriv = set()
    viol = {}
    samples = []
    n_ok = n_disc = n_viol = 0
    ticks = 0
    for r in results:
        stats.update(r["stats"])
        keys.update(r["keys"])
        digests.update(r["digests"])
        nontriv.update(r["nontriv_digests"])
        n_ok += r["n_ok"]
        n_disc += r["n_disc"]
        n_viol += r["n_viol"]
        ticks += r["ticks"]
        for s, v in r["viol"].items():
            viol.setdefault(s, v)
        if len(samples) < 4:
            samples.extend(r["samples"][: 4 - len(samples)])
    run_wall = time.time() - t0

    # --- violations: classify, minimise, replay in a fresh interpreter
    exit_code = 0
    reported = []
    known_hits = Counter()
    new_sigs = []
    for s in sorted(viol, key=lambda s: viol[s]["idx"]):
        if s in known_sigs:
            known_hits[s] += 1
        else:
            new_sigs.append(s)
    for s in new_sigs[:5]:
        v = viol[s]
        case = v["case"]
        try:
            if hasattr(spec, "explicate"):
                # e.g. replace a seeded scheduling policy by the explicit
                # schedule it produced, so that the replay file holds the list
                ecase = spec.explicate(case)
                eout = spec.guarded_execute(ecase)
                if eout.status == VIOLATION and eout.sig == s:
                    case = ecase
            mcase, nexec = minimise(spec, case, s)
            out = spec.guarded_execute(mcase)
        except Exception as exc:
            print("HARNESS-ERROR minimiser failed: %r" % (exc,))
            traceback.print_exc()
            return 3
        needs_history = not (out.status == VIOLATION and out.sig == s)
        path = None
        if not needs_history:
            path = write_replay(spec, verif_seed, v["idx"], mcase, out.to_json(), minimised_from=_case_size(case), tier=tier)
            rc, txt = replay_in_fresh_interpreter(path)
            if rc != 1 or "VIOLATION property=%s" % spec.prop not in txt:
                needs_history = True
        if needs_history:
            # not reproducible from the case alone: does it need the earlier
            # runs of its worker process (state kept by the code under test)?
            print("note: signature %s does not reproduce from its case alone; re-creating the worker's earlier runs in fresh interpreters" % s)
            sys.stdout.flush()
            hist = history_fallback(spec, verif_seed, tier, s, v, workers=workers)
            if hist is None:
                print("HARNESS-NONDETERMINISM property=%s signature %s reproduces neither from its case nor from its process history" % (spec.prop, s))
                return 3
            hcases, target, full_len, ntests, hidx = hist
            ojson = dict(v["outcome"])
            if hcases:
                ojson["detail"] = (
                    "(needs process history: the violation appears only after %d earlier run(s) in the same process — the code under test keeps state between calls; reduced from %d earlier runs in %d fresh-interpreter trials)\n%s"
                    % (len(hcases), full_len, ntests, ojson.get("detail", ""))
                )
            else:
                ojson["detail"] = (
                    "(the case as generated reproduces on its own in a fresh process; its in-process minimisation did not — the code under test keeps state between calls, so the replay file holds the un-minimised case)\n%s"
                    % ojson.get("detail", "")
                )
            path = write_replay(spec, verif_seed, v["idx"], target, ojson, minimised_from=full_len, history=hcases, tier=tier, history_indices=hidx, prewarm_workers=workers)
            rc, txt = replay_in_fresh_interpreter(path)
            if rc != 1 or "VIOLATION property=%s" % spec.prop not in txt:
                print(txt)
                print("HARNESS-NONDETERMINISM property=%s history replay %s did not reproduce in a fresh interpreter (rc=%s)" % (spec.prop, path, rc))
                return 3
            out = Outcome(VIOLATION, [], sig=s, detail=ojson["detail"])
            nexec = ntests
        print("violation signature: %s" % s)
        print(out.detail)
        print("VIOLATION property=%s replay=%s" % (spec.prop, path))
        reported.append({"signature": s, "replay": path, "run": v["idx"], "minimiser_executions": nexec})
        exit_code = 1
    if len(new_sigs) > 5:
        print("(%d further distinct violation signatures not minimised)" % (len(new_sigs) - 5))

    wall = time.time() - t0
    evaluations = n_ok + n_viol
    if not samples:
        # fall back to any judged run so that the evidence always shows a case
        samples = [{"note": "no non-trivial accepted sample in this batch"}]
    coverage = {
        "evaluations": evaluations,
        "distinct_nontrivial": len(nontriv),
        "rule": spec.rule,
        "samples": samples,
        "runs_generated": n_runs,
        "discarded": n_disc,
        "distinct_event_digests": len(digests),
        "states_reached": len(keys),
        "states_reached_measure": getattr(spec, "state_measure", "distinct outcome keys"),
        "runs_per_hour": int(n_runs / max(run_wall, 1e-6) * 3600),
        "seeds": {"VERIF_SEED": verif_seed, "first_run": first_run, "last_run": first_run + n_runs - 1,
                  "derivation": "sha256(VERIF_SEED/sim/property/run)[:8]"},
        "simulated_time": {"seam_ticks": ticks, "unit": getattr(spec, "tick_unit", "read()/write() calls on simulated files")},
        "counters": {k: stats[k] for k in sorted(stats)},
        "top_states": [[k, c] for k, c in keys.most_common(12)],
        "components": spec.components,
        "known_finding_hits": dict(known_hits),
        "violations_reported": reported,
        "workers": workers,
        "exhaustive": False,
    }
    coverage.update(spec.extra_evidence({"stats": stats, "keys": keys}) or {})
    evidence = {
        "property_id": spec.prop,
        "tier": tier,
        "seed": verif_seed,
        "level": "exploration",
        "coverage": coverage,
        "assumptions": list(spec.assumptions),
        "wall_s": round(wall, 2),
        "violations": len(new_sigs),
    }
    os.makedirs(os.path.join(OUT, "evidence"), exist_ok=True)
    with open(os.path.join(OUT, "evidence", spec.prop + ".json"), "w") as f:
        json.dump(evidence, f, indent=1, sort_keys=True, default=_jdefault)
    print(
        "%s %s: runs=%d judged=%d discarded=%d violations=%d distinct=%d states=%d wall=%.1fs (%d runs/h)"
        % (spec.prop, tier, n_runs, evaluations, n_disc, n_viol, len(nontriv), len(keys), wall, coverage["runs_per_hour"])
    )
    return exit_code


def _case_size(case):
    n = 0
    for k in ("faults", "ops", "units", "schedule", "history"):
        v = case.get(k)
        if isinstance(v, list):
            n += len(v)
    return n
