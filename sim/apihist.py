"""Simulation D — API-call histories against reference models (C27, C20, C21).

Honest label: there is no scheduler, clock or multi-party dimension here; only
(i) an operation/fault history chosen by the seeded PRNG, (ii) an executable
reference model, (iii) shrinking and exact replay — the degenerate single-node
case of the technique (DESIGN.md section 2, 7).  The design planned Hypothesis
state machines; the core runner is used instead (same seeded history search,
shrinking and replay, but uniform replay files/digests and 16-process
throughput) — see DESIGN.md section 15.
"""

import pickle
from collections import Counter

from sim.core import Spec, Outcome, OK, VIOLATION, DISCARD, SimFile, exc_sig, short_tb, shrink_list, register, ensure_repo

ensure_repo()

import vc2_conformance.fixeddict as fixeddict_mod  # noqa: E402
from vc2_conformance.fixeddict import FixedDictKeyError  # noqa: E402
import vc2_conformance.bitstream.vc2_fixeddicts as vc2_fixeddicts  # noqa: E402
from vc2_conformance.pseudocode.state import State  # noqa: E402
from vc2_conformance.pseudocode.video_parameters import VideoParameters  # noqa: E402
from vc2_conformance.codec_features import CodecFeatures  # noqa: E402
import vc2_conformance.scripts.vc2_test_case_generator.worker as worker_mod  # noqa: E402


def all_fixeddict_types():
    types = {}
    for name in sorted(dir(vc2_fixeddicts)):
        obj = getattr(vc2_fixeddicts, name)
        if isinstance(obj, type) and issubclass(obj, dict) and hasattr(obj, "entry_objs"):
            types[name] = obj
    for obj in (State, VideoParameters, CodecFeatures):
        types[obj.__name__] = obj
    return types


FD_TYPES = all_fixeddict_types()
FD_NAMES = sorted(FD_TYPES)
UNDECLARED = ["bogus", "_bogus", "", "Name", "frame_widht", 5, "pic_num", "x" * 40,
              # names that coincide with parameter names of dict / mapping methods
              "E", "F", "self", "args", "kwargs", "cls", "other", "mapping", "iterable", "key", "default", "value", "d", "m"]


def _key(cls, k):
    kind, v = k
    if kind == "d":
        names = list(cls.entry_objs)
        return names[v % len(names)]
    return v


VALUES = [0, 1, -1, 255, 2**40, None, True, "s", [1, 2], {"a": 1}, 3.5, "", 0.0, False, [],
          {"__py__": "Ellipsis"}, {"__py__": "NotImplemented"}, {"__py__": "tuple"}, {"__py__": "bytes"}, {"__py__": "frozenset"},
          {"__py__": "fixeddict"}, {"__py__": "int-enum"}, {"__py__": "neg-zero"}, {"__py__": "big"}]

# values that JSON cannot hold are named by a token in the case and built here
_PY_VALUES = {
    "Ellipsis": lambda: Ellipsis,
    "NotImplemented": lambda: NotImplemented,
    "tuple": lambda: (1, (2, 3)),
    "bytes": lambda: b"\x00\xff",
    "frozenset": lambda: frozenset([1, 2]),
    "fixeddict": lambda: vc2_fixeddicts.ParseInfo(parse_code=0x10, next_parse_offset=0),
    "int-enum": lambda: __import__("vc2_data_tables").ParseCodes.end_of_sequence,
    "neg-zero": lambda: -0.0,
    "big": lambda: -(1 << 200),
}


def pyval(v):
    if isinstance(v, dict) and set(v) == {"__py__"}:
        return _PY_VALUES[v["__py__"]]()
    return v


# fixeddict types that share at least one declared key with another type (the
# source of an update / |= may itself be a fixed-entry dictionary of another
# type: e.g. LDSliceParameters and HQSliceParameters, FrameSize and
# VideoParameters)
FD_PARTNERS = {}
for _a in FD_NAMES:
    _pa = [
        _b for _b in FD_NAMES
        if _b != _a and set(FD_TYPES[_a].entry_objs) & set(FD_TYPES[_b].entry_objs) and set(FD_TYPES[_b].entry_objs) - set(FD_TYPES[_a].entry_objs)
    ]
    if _pa:
        FD_PARTNERS[_a] = _pa


# ordinary Python subclasses of every fixeddict type (module level, so that
# they pickle by reference): "a dictionary of the same type" includes them
FD_SUBTYPES = {}
for _n in FD_NAMES:
    _sub = type("Sub" + _n, (FD_TYPES[_n],), {"__module__": __name__})
    globals()["Sub" + _n] = _sub
    FD_SUBTYPES[_n] = _sub


class C27(Spec):
    prop = "C27"
    sim = "D"
    title = "Fixed-entry dictionaries never hold undeclared keys and pickle faithfully"
    quick_runs = 200000
    thorough_runs = 6000000
    chunk = 2000
    tick_unit = "dictionary operations"
    state_measure = "distinct (type, op-kind sequence shape, outcome) tuples"
    components = {
        "real": ["vc2_conformance.fixeddict (every fixeddict type the library defines: bitstream descriptions, State, VideoParameters, CodecFeatures)", "pickle and the worker transport vc2_test_case_generator.worker.encode/decode"],
        "stub": ["none (no seam: single-node operation history against a plain-dict model)"],
    }
    assumptions = [
        "single-node, sequential: no scheduler/clock dimension; seeded operation-history search vs reference model",
        "after a *failed* update/|= the model is re-synchronised with the dictionary (partial application of the declared keys is not forbidden by the statement); the no-undeclared-keys invariant is still checked",
    ]
    rule = (
        "each run = one fixeddict type (out of all the library defines) and a history of 2-10 operations: construct "
        "(mapping / pairs / kwargs), item assignment, setdefault, update (mapping / pairs / kwargs), in-place merge (|=), "
        "copy, delete, pickle round trip (pickle protocols 0-5 and the worker command transport), with declared and "
        "undeclared keys. Model = plain dict restricted to the declared keys. Judged after every op: key set within the "
        "declared keys; an op given an undeclared key raises FixedDictKeyError; a successful op leaves content equal to "
        "the model; copy/unpickle give an equal dictionary of the same type. non-trivial = >= 2 ops."
    )

    def generate(self, rng, idx, tier):
        tname = rng.choice(FD_NAMES)
        if rng.random() < 0.3:
            tname = rng.choice(sorted(FD_PARTNERS))
        cls = FD_TYPES[tname]
        partner = rng.choice(FD_PARTNERS[tname]) if tname in FD_PARTNERS else None

        def fd_items():
            # keys of the partner type: mostly the shared ones (a legal merge),
            # sometimes one the target does not declare
            pk = list(FD_TYPES[partner].entry_objs)
            shared = [k for k in pk if k in cls.entry_objs]
            n = rng.choice([1, 1, 2, 3])
            pool = shared if rng.random() < 0.6 else pk
            return [[["n", rng.choice(pool)], rng.choice(VALUES)] for _ in range(n)]

        def key():
            if rng.random() < 0.2:
                return ["u", rng.choice(UNDECLARED)]
            return ["d", rng.randrange(len(cls.entry_objs))]

        def items(n=None):
            return [[key(), rng.choice(VALUES)] for _ in range(n if n is not None else rng.choice([0, 1, 1, 2, 3]))]

        ops = [{"op": "new", "how": rng.choice(["kwargs", "mapping", "pairs", "empty"]), "items": items()}]
        for _ in range(rng.randrange(1, 10)):
            o = rng.choice(["set", "set", "setdefault", "update", "update", "ior", "ior", "copy", "pickle", "pickle", "del"])
            if o in ("set", "setdefault"):
                ops.append({"op": o, "k": key(), "v": rng.choice(VALUES)})
            elif o in ("update", "ior") and partner is not None and rng.random() < 0.5:
                ops.append({"op": o, "how": "fd", "src": partner, "items": fd_items()})
            elif o == "update":
                ops.append({"op": o, "how": rng.choice(["kwargs", "mapping", "pairs", "both"]), "items": items()})
            elif o == "ior":
                ops.append({"op": o, "how": rng.choice(["mapping", "pairs"]), "items": items()})
            elif o == "pickle":
                ops.append({"op": o, "via": rng.choice(["pickle", "pickle", "worker"]), "proto": rng.randrange(0, 6)})
            elif o == "del":
                ops.append({"op": o, "k": key()})
            else:
                ops.append({"op": o})
        case = {"type": tname, "ops": ops}
        if rng.random() < 0.12:
            case["subclass"] = True  # the object is an instance of a plain subclass of the type
        if idx % 20000 == 777:
            # launch-mode arm: a user module declaring its own fixeddict type,
            # run in a fresh interpreter as a script / with -m / imported
            case = {"type": tname, "ops": [], "launch": rng.choice(["-m", "script", "import", "-m"])}
        return case

    def shrink(self, case):
        if case.get("subclass"):
            yield {k: v for k, v in case.items() if k != "subclass"}
        for ops in shrink_list(case["ops"]):
            yield dict(case, ops=ops)
        for i, o in enumerate(case["ops"]):
            if "items" in o and len(o["items"]) > 1:
                for it in shrink_list(o["items"]):
                    yield dict(case, ops=case["ops"][:i] + [dict(o, items=it)] + case["ops"][i + 1 :])

    def execute(self, case):
        stats = Counter()
        if case.get("launch"):
            return self.execute_launch(case)
        cls = FD_TYPES.get(case["type"])
        events = [("case", case["type"], repr(case["ops"]), case.get("subclass"))]
        if cls is None:
            return Outcome(DISCARD, events, stats={"discard:unknown-type": 1})
        if case.get("subclass"):
            cls = FD_SUBTYPES[case["type"]]
            stats["subclass-instances"] += 1
        declared = set(cls.entry_objs)
        d = None
        model = {}
        key = "%s|%s" % (case["type"], "".join(o["op"][0] for o in case["ops"]))

        def viol(sig, detail):
            return Outcome(VIOLATION, events, sig=sig, detail="type %s, ops %r\n%s" % (case["type"], case["ops"][: step + 1], detail), stats=stats, nontrivial=len(case["ops"]) >= 2, key=key, ticks=step + 1)

        step = -1
        for step, o in enumerate(case["ops"]):
            op = o["op"]
            stats["op:" + op] += 1
            if d is None and op != "new":
                continue
            pairs = [(_key(cls, k), pyval(v)) for k, v in o.get("items", [])]
            if "v" in o:
                o = dict(o, v=pyval(o["v"]))
            has_undeclared = any(k not in declared for k, _ in pairs)
            exc = None
            result = None
            src = None
            if o.get("how") == "fd":
                # the source is a fixed-entry dictionary of another type
                scls = FD_TYPES.get(o.get("src"))
                try:
                    src = scls(dict(pairs))
                except Exception:  # noqa: BLE001 — (only a hand-edited/shrunk case)
                    continue
                pairs = list(dict(pairs).items())
                stats["fixeddict-sourced-merges"] += 1
            try:
                if op == "new":
                    how = o["how"]
                    if how == "kwargs" and all(isinstance(k, str) and k.isidentifier() for k, _ in pairs):
                        result = cls(**dict(pairs))
                    elif how == "pairs":
                        result = cls(pairs)
                    elif how == "empty":
                        result = cls()
                        pairs = []
                        has_undeclared = False
                    else:
                        result = cls(dict(pairs))
                elif op == "set":
                    k = _key(cls, o["k"])
                    has_undeclared = k not in declared
                    d[k] = o["v"]
                elif op == "setdefault":
                    k = _key(cls, o["k"])
                    has_undeclared = k not in declared
                    result = d.setdefault(k, o["v"])
                elif op == "update":
                    how = o["how"]
                    strs = all(isinstance(k, str) and k.isidentifier() for k, _ in pairs)
                    if how == "fd":
                        d.update(src)
                    elif how == "kwargs" and strs:
                        d.update(**dict(pairs))
                    elif how == "pairs":
                        d.update(pairs)
                    elif how == "both" and strs and pairs:
                        d.update(dict(pairs[:1]), **dict(pairs[1:]))
                    else:
                        d.update(dict(pairs))
                elif op == "ior":
                    if o["how"] == "fd":
                        d |= src
                    elif o["how"] == "pairs":
                        d |= pairs
                    else:
                        d |= dict(pairs)
                elif op == "del":
                    k = _key(cls, o["k"])
                    if k in d:
                        del d[k]
                    model.pop(k, None)
                    has_undeclared = False
                elif op == "copy":
                    result = d.copy()
                elif op == "pickle":
                    if o["via"] == "worker":
                        result = worker_mod.decode(worker_mod.encode(len, d)).args[0]
                    else:
                        result = pickle.loads(pickle.dumps(d, protocol=o["proto"]))
            except Exception as e:  # noqa: BLE001
                exc = e
            events.append((step, op, type(exc).__name__ if exc else None))
            # ---- judge the op
            if op in ("copy", "pickle"):
                if exc is not None:
                    return viol(exc_sig("C27/%s-raised" % op, exc), "%s raised:\n%s" % (op, short_tb(exc)))
                if type(result) is not cls or dict(result) != dict(d) or result is d:
                    return viol("C27/%s-not-equal" % op, "%s returned %r (%s) for %r" % (op, result, type(result).__name__, d))
                if op == "copy":
                    d = result
                continue
            if has_undeclared:
                stats["undeclared-key-ops"] += 1
                if exc is None:
                    target = result if op == "new" else d
                    extra = sorted((repr(k) for k in dict(target) if k not in declared))
                    return viol("C27/undeclared-key-accepted/%s" % op, "%s with an undeclared key did not raise; undeclared keys now present: %s" % (op, extra))
                if not isinstance(exc, FixedDictKeyError):
                    return viol(exc_sig("C27/wrong-exception/%s" % op, exc), "%s with an undeclared key raised %s, not FixedDictKeyError:\n%s" % (op, type(exc).__name__, short_tb(exc)))
                if op == "new":
                    d = None
                    model = {}
                    continue
                model = dict(d)  # re-synchronise (partial application is allowed)
            else:
                if exc is not None:
                    return viol(exc_sig("C27/declared-op-raised/%s" % op, exc), "%s with declared keys only raised:\n%s" % (op, short_tb(exc)))
                if op == "new":
                    d = result
                    model = dict(pairs)
                elif op == "set":
                    model[_key(cls, o["k"])] = o["v"]
                elif op == "setdefault":
                    k = _key(cls, o["k"])
                    model.setdefault(k, o["v"])
                    if result is not model[k] and result != model[k]:
                        return viol("C27/setdefault-result", "setdefault returned %r, model %r" % (result, model[k]))
                elif op in ("update", "ior"):
                    model.update(dict(pairs))
            if d is not None:
                bad = [k for k in d.keys() if k not in declared]
                if bad:
                    return viol("C27/undeclared-key-present", "dictionary holds undeclared keys %r" % (bad,))
                if dict(d) != model:
                    return viol("C27/content-differs-from-model/%s" % op, "after %s: dictionary %r, model %r" % (op, dict(d), model))
                if type(d) is not cls:
                    return viol("C27/type-changed/%s" % op, "after %s the object is a %s" % (op, type(d).__name__))
        return Outcome(OK, events, stats=stats, nontrivial=len(case["ops"]) >= 2, key=key, ticks=step + 1)

    def execute_launch(self, case):
        import os
        import subprocess

        from sim.core import PY, REPO, VERIF

        mode = case["launch"]
        env = dict(os.environ, PYTHONPATH=REPO + os.pathsep + VERIF, PYTHONHASHSEED="0")
        env.pop("VERIF_NO_REEXEC", None)
        if mode == "-m":
            cmd = [PY, "-m", "sim.fd_probe"]
        elif mode == "script":
            cmd = [PY, os.path.join(VERIF, "sim", "fd_probe.py")]
        else:
            cmd = [PY, "-c", "import sys, sim.fd_probe as m; sys.exit(m.main())"]
        p = subprocess.run(cmd, env=env, cwd=VERIF, stdout=subprocess.PIPE, stderr=subprocess.STDOUT, timeout=300)
        out = p.stdout.decode(errors="replace").strip()
        events = [("launch", mode, p.returncode, out[-200:])]
        stats = Counter({"runs:launch-mode-arm": 1, "launch:" + mode: 1})
        if p.returncode != 0 or not out.endswith("OK"):
            return Outcome(VIOLATION, events, sig="C27/launch-mode/%s" % mode, detail="a module declaring its own fixeddict type, started as %r in a fresh interpreter: %s" % (mode, out[-600:]), stats=stats, nontrivial=True, key="launch|" + mode, ticks=1)
        return Outcome(OK, events, stats=stats, nontrivial=True, key="launch|" + mode, ticks=1)

    def extra_evidence(self, merged):
        st = merged["stats"]
        return {"operations": {k[3:]: v for k, v in st.items() if k.startswith("op:")}, "types_covered": len(FD_NAMES)}


register(C27())


# --------------------------------------------------------------------------
# C20 — bit-level readers and writers agree on every primitive
# --------------------------------------------------------------------------

from bitarray import bitarray  # noqa: E402

from vc2_conformance.bitstream.io import BitstreamReader, BitstreamWriter  # noqa: E402
from vc2_conformance.bitstream.exceptions import OutOfRangeError  # noqa: E402
from vc2_conformance.bitstream.exp_golomb import exp_golomb_length, signed_exp_golomb_length  # noqa: E402
from vc2_conformance import decoder as _dec  # noqa: E402
from vc2_conformance.decoder import UnexpectedEndOfStream  # noqa: E402


def m_uint(v):
    """Model: interleaved exp-Golomb code (A.4.3) as a list of bits."""
    v += 1
    n = v.bit_length() - 1
    out = []
    for i in range(n - 1, -1, -1):
        out += [0, (v >> i) & 1]
    return out + [1]


def m_sint(v):
    out = m_uint(abs(v))
    if v != 0:
        out.append(1 if v < 0 else 0)
    return out


def m_bits(o):
    """Model: the bits a value op puts on the wire, or None if out of range."""
    k = o["op"]
    if k == "bit":
        return [1 if o["v"] else 0]
    if k == "nbits":
        if o["v"] < 0 or o["v"].bit_length() > o["n"]:
            return None
        return [(o["v"] >> i) & 1 for i in range(o["n"] - 1, -1, -1)]
    if k == "uint_lit":
        if o["v"] < 0 or o["v"].bit_length() > 8 * o["n"]:
            return None
        return [(o["v"] >> i) & 1 for i in range(8 * o["n"] - 1, -1, -1)]
    if k == "bitarray":
        if len(o["v"]) > o["n"]:
            return None
        return [int(c) for c in o["v"]] + [0] * (o["n"] - len(o["v"]))
    if k == "bytes":
        b = bytes.fromhex(o["v"])
        if len(b) > o["n"]:
            return None
        b = b + bytes(o["n"] - len(b))
        return [(x >> i) & 1 for x in b for i in range(7, -1, -1)]
    if k == "uint":
        return None if o["v"] < 0 else m_uint(o["v"])
    if k == "sint":
        return m_sint(o["v"])
    raise ValueError(k)


# the interpreter's int<->str digit limit (PYTHONINTMAXSTRDIGITS; 4300 by
# default, 0 = unlimited) is part of the environment the code under test runs
# in: it is set to the case's value around every call into the library and to
# unlimited for the harness's own formatting
_INT_DIGITS = [0]


def _limited(fn):
    import functools
    import sys as _s

    @functools.wraps(fn)
    def wrapper(*a, **kw):
        if not _INT_DIGITS[0] or not hasattr(_s, "set_int_max_str_digits"):
            return fn(*a, **kw)
        _s.set_int_max_str_digits(_INT_DIGITS[0])
        try:
            return fn(*a, **kw)
        finally:
            _s.set_int_max_str_digits(0)

    return wrapper


@_limited
def w_apply(w, o):
    k = o["op"]
    if k == "bit":
        w.write_bit(o["v"])
    elif k == "nbits":
        w.write_nbits(o["n"], o["v"])
    elif k == "uint_lit":
        w.write_uint_lit(o["n"], o["v"])
    elif k == "bitarray":
        w.write_bitarray(o["n"], bitarray(o["v"], endian="little") if o.get("le") else bitarray(o["v"]))
    elif k == "bytes":
        w.write_bytes(o["n"], bytes.fromhex(o["v"]))
    elif k == "uint":
        w.write_uint(o["v"])
    elif k == "sint":
        w.write_sint(o["v"])


@_limited
def r_apply(r, o):
    k = o["op"]
    if k == "bit":
        return r.read_bit()
    if k == "nbits":
        return r.read_nbits(o["n"])
    if k == "uint_lit":
        return r.read_uint_lit(o["n"])
    if k == "bitarray":
        return r.read_bitarray(o["n"]).to01()
    if k == "bytes":
        return r.read_bytes(o["n"]).hex()
    if k == "uint":
        return r.read_uint()
    if k == "sint":
        return r.read_sint()


@_limited
def d_apply(state, o, bounded):
    """The validator's reader (decoder.io) on a State."""
    k = o["op"]
    if bounded:
        if k == "bit":
            return _dec.read_bitb(state)
        if k in ("nbits", "uint_lit"):
            n = o["n"] * (8 if k == "uint_lit" else 1)
            v = 0
            for _ in range(n):
                v = (v << 1) | _dec.read_bitb(state)
            return v
        if k == "bitarray":
            return "".join(str(_dec.read_bitb(state)) for _ in range(o["n"]))
        if k == "bytes":
            v = 0
            for _ in range(8 * o["n"]):
                v = (v << 1) | _dec.read_bitb(state)
            return v.to_bytes(o["n"], "big").hex()
        if k == "uint":
            return _dec.read_uintb(state)
        if k == "sint":
            return _dec.read_sintb(state)
    if k == "bit":
        return _dec.read_bit(state)
    if k == "nbits":
        return _dec.read_nbits(state, o["n"])
    if k == "uint_lit":
        return _dec.read_uint_lit(state, o["n"])
    if k == "bitarray":
        return "".join(str(_dec.read_bit(state)) for _ in range(o["n"]))
    if k == "bytes":
        return _dec.read_nbits(state, 8 * o["n"]).to_bytes(o["n"], "big").hex()
    if k == "uint":
        return _dec.read_uint(state)
    if k == "sint":
        return _dec.read_sint(state)


def expected_value(o, bits):
    """What reading the op back returns, given the bits on the wire."""
    k = o["op"]
    if k == "bit":
        return bits[0]
    if k in ("nbits", "uint_lit"):
        v = 0
        for b in bits:
            v = (v << 1) | b
        return v
    if k == "bitarray":
        return "".join(str(b) for b in bits)
    if k == "bytes":
        v = 0
        for b in bits:
            v = (v << 1) | b
        return v.to_bytes(o["n"], "big").hex()
    return o["v"]


def pos_tuple(p):
    return (p // 8, 7 - (p % 8))


class C20(Spec):
    prop = "C20"
    sim = "D"
    title = "Bit-level readers and writers agree on every primitive"
    quick_runs = 150000
    thorough_runs = 4000000
    chunk = 2000
    tick_unit = "primitive read/write operations"
    state_measure = "distinct (op-kind sequence shape, truncation, outcome) tuples"
    components = {
        "real": ["vc2_conformance.bitstream.io.BitstreamWriter / BitstreamReader", "vc2_conformance.decoder.io (the validator's reader) on a State", "vc2_conformance.bitstream.exp_golomb length functions"],
        "stub": ["file objects (sim.core.SimFile) incl. truncated copies (EOF instant)"],
    }
    assumptions = [
        "single-node, sequential: no scheduler/clock dimension; seeded operation-history search vs a list-of-bits model",
        "writer seeks: byte-aligned seek-back patches over fixed-width fields are followed by the full mirrored read-back; arbitrary (byte, bit) seeks are modelled by the documented rule (a byte the writer enters is rebuilt from an empty byte: bits it does not write there become 0) and judged on the final bytes only",
        "negative bounded-block lengths are checked on the BitstreamWriter/BitstreamReader pair only (the validator cannot produce them; observation O3 in DESIGN section 10)",
        "a write that must fail inside a bounded block (0 past the end) ends the history: the state after a failed multi-bit write is not specified",
    ]
    rule = (
        "each run = a history of 1-14 write operations on a BitstreamWriter over a simulated file (bits, n-bit and byte "
        "literals, bit arrays, byte strings, unsigned/signed exp-Golomb values up to 2^70, in-range and out-of-range, "
        "bounded blocks of positive/zero/negative length with values running past their end, byte-aligned seek-back "
        "patches, tell, flush), then the mirrored read history on BitstreamReader and on the validator's decoder.io "
        "reader, on the written bytes and on a copy truncated at a seeded byte (EOF instant), then seeded seeks and "
        "re-reads on BitstreamReader. Model = list of bits + cursor. Judged: values, tell() of all three after every "
        "op, exp-Golomb length functions == cursor advance, OutOfRangeError leaves cursor/bytes unchanged, past-the-end "
        "rules of bounded blocks, EOFError and UnexpectedEndOfStream at the same op. non-trivial = >= 2 ops."
    )

    def _value_op(self, rng, inner=False):
        k = rng.choice(["bit", "nbits", "nbits", "uint_lit", "bitarray", "bytes", "uint", "uint", "sint", "sint"])
        if k == "bit":
            return {"op": k, "v": rng.randrange(2)}
        if not inner and rng.random() < 0.0006:
            # long values: widths and lengths beyond the usual word / buffer sizes
            kk = rng.choice(["nbits", "bytes", "bitarray"])
            if kk == "nbits":
                n = rng.choice([63, 64, 65, 128, 1000])
                return {"op": "nbits", "n": n, "v": rng.getrandbits(n)}
            if kk == "bytes":
                n = rng.choice([300, 300, 4097, 4097, 8193, 8193, 8193, 70000])
                return {"op": "bytes", "n": n, "v": bytes((rng.randrange(256) + 31 * i) & 0xFF for i in range(n)).hex()}
            n = rng.choice([65, 65, 4097, 4097, 70001])
            return {"op": "bitarray", "n": n, "v": format(rng.getrandbits(n), "0%db" % n)}
        if k == "nbits":
            n = rng.choice([0, 1, 2, 3, 7, 8, 9, 16, 33])
            v = rng.randrange(1 << n) if n else 0
            if rng.random() < 0.12:
                v = rng.choice([1 << n, -1, (1 << n) + 5, 10 ** 5000])
            return {"op": k, "n": n, "v": v}
        if k == "uint_lit":
            n = rng.choice([0, 1, 2, 4])
            v = rng.randrange(1 << (8 * n)) if n else 0
            if rng.random() < 0.1:
                v = rng.choice([1 << (8 * n), -1, 10 ** 5000])
            return {"op": k, "n": n, "v": v}
        if k == "bitarray":
            n = rng.choice([0, 1, 3, 8, 13])
            m = n if rng.random() < 0.7 else rng.choice([max(0, n - 2), n + 1])
            o = {"op": k, "n": n, "v": "".join(rng.choice("01") for _ in range(m))}
            if rng.random() < 0.25:
                # the caller's array may use the other bit-endianness (its bits,
                # in index order, are what must appear on the wire)
                o["le"] = True
            return o
        if k == "bytes":
            n = rng.choice([0, 1, 2, 5])
            m = n if rng.random() < 0.7 else rng.choice([max(0, n - 1), n + 1])
            return {"op": k, "n": n, "v": bytes(rng.randrange(256) for _ in range(m)).hex()}
        if k == "uint":
            v = rng.choice([0, 1, 2, 3, 6, 7, 8, 255, 256, rng.randrange(1 << 16), rng.randrange(1 << 70)])
            if rng.random() < 0.08:
                v = -1 - rng.randrange(5)
            return {"op": k, "v": v}
        v = rng.choice([0, 1, -1, 2, -2, 7, -8, rng.randrange(-(1 << 16), 1 << 16), rng.randrange(-(1 << 70), 1 << 70)])
        return {"op": k, "v": v}

    def generate(self, rng, idx, tier):
        ops = []
        for _ in range(rng.randrange(1, 15)):
            r = rng.random()
            if r < 0.62:
                ops.append(self._value_op(rng))
            elif r < 0.82:
                inner = [self._value_op(rng, True) for _ in range(rng.randrange(0, 5))]
                total = sum(len(m_bits(io_) or []) for io_ in inner)
                mode = rng.random()
                if mode < 0.5:
                    L = total + rng.choice([0, 0, 1, 5, 9])
                elif mode < 0.75:
                    # values running past the end: only 1s may do so
                    tail = [rng.choice([{"op": "bit", "v": 1}, {"op": "uint", "v": 0}, {"op": "nbits", "n": 3, "v": 7}, {"op": "sint", "v": 0}, {"op": "bitarray", "n": 2, "v": "11"}]) for _ in range(rng.randrange(1, 4))]
                    inner = inner + tail
                    L = total + rng.choice([0, 0, 1, 2]) if rng.random() < 0.7 else rng.choice([-3, -1, 0])
                    if L <= 0:
                        inner = tail
                    elif rng.random() < 0.45:
                        # one value whose code straddles the block end: only its
                        # trailing 1 bits (terminator / negative sign) hang over
                        mag = rng.choice([0, 1, 2, 3, 7, 8, 15, 127, 255, 256, 1023, 65535, rng.randrange(1 << 20), rng.randrange(1 << 70)])
                        so = {"op": "uint", "v": mag} if rng.random() < 0.4 else {"op": "sint", "v": -mag}
                        sb = m_bits(so)
                        t = 0
                        while t < len(sb) and sb[len(sb) - 1 - t] == 1:
                            t += 1
                        inner = inner[: len(inner) - len(tail)] + [so]
                        L = total + len(sb) - rng.randrange(1, t + 1)
                else:
                    L = rng.choice([-3, -1, 0, 0, 1, 2, 3, 5, 8, 13, 24, 40])
                ops.append({"op": "bb", "len": L, "ops": inner, "fill": rng.choice(["0", "1", "r"]), "fseed": rng.randrange(1 << 16)})
            elif r < 0.88:
                ops.append({"op": "patch", "at": rng.randrange(0, 8), "n": rng.choice([1, 2, 4]), "v": rng.randrange(1 << 8)})
            elif r < 0.91:
                # writer seek to an arbitrary (byte, bit): documented to zero the
                # bits already set in that byte; fixed-width writes follow
                ops.append({"op": "wseek", "byte": rng.randrange(0, 6), "bit": rng.randrange(8),
                            "then": [{"op": "nbits", "n": rng.choice([0, 1, 3, 8, 11]), "v": 0} for _ in range(rng.randrange(0, 3))]})
                for t in ops[-1]["then"]:
                    t["v"] = rng.randrange(1 << t["n"]) if t["n"] else 0
            elif r < 0.95:
                ops.append({"op": "flush"})
            else:
                ops.append({"op": "align"})
        case = {"ops": ops, "trunc": rng.choice([None, None, rng.randrange(0, 40)]), "seeks": [rng.randrange(1 << 16) for _ in range(rng.choice([0, 0, 2, 4]))], "reread": rng.random() < 0.4}
        if rng.random() < 0.15:
            # the stream does not start at offset 0 of its file (a container
            # prefix): writer and readers are handed a file positioned past it
            case["prefix"] = rng.choice([1, 2, 3, 5])
        if rng.random() < 0.5:
            case["ghost"] = True  # a second writer / reader instance used in alternation
        case["int_digits"] = rng.choice([0, 0, 4300, 4300, 640])
        return case

    def shrink(self, case):
        for ops in shrink_list(case["ops"]):
            yield dict(case, ops=ops)
        for i, o in enumerate(case["ops"]):
            if o["op"] == "bb" and o["ops"]:
                for inner in shrink_list(o["ops"]):
                    yield dict(case, ops=case["ops"][:i] + [dict(o, ops=inner)] + case["ops"][i + 1 :])
        if case["trunc"] is not None:
            yield dict(case, trunc=None)
        if case["seeks"]:
            yield dict(case, seeks=[])
        if case.get("reread"):
            yield dict(case, reread=False)
        if case.get("prefix"):
            yield {k: v for k, v in case.items() if k != "prefix"}
        if case.get("ghost"):
            yield {k: v for k, v in case.items() if k != "ghost"}

    def execute(self, case):  # noqa: C901
        import random as _random

        stats = Counter()
        events = [("case", repr(case))]
        _INT_DIGITS[0] = case.get("int_digits", 0)
        npre = case.get("prefix", 0)
        junk = bytes((37 * i + 11) & 0xFF for i in range(npre))
        f = SimFile(junk)
        f.seek(npre)
        w = BitstreamWriter(f)
        # a second, independent writer (and later reader) on its own file, used
        # in alternation with the one under test: instances must not share state
        ghost = bool(case.get("ghost"))
        gfile = SimFile()
        gw = BitstreamWriter(gfile) if ghost else None
        gvals = []
        bits = [(x >> i) & 1 for x in junk for i in range(7, -1, -1)]  # model: the file's bits
        pos = 8 * npre  # model cursor (bit index)
        layout = []  # what was written: (kind, op, start, nbits, expected value, inner info)
        shape = []
        step = -1

        def viol(sig, detail):
            return Outcome(VIOLATION, events, sig=sig, detail="ops %r\nat op %d: %s" % (case["ops"][: step + 1], step, detail), stats=stats, nontrivial=len(case["ops"]) >= 2, key="".join(shape)[:24], ticks=step + 1)

        fixed = [False] * (8 * npre)  # per bit: written by a fixed-width value op outside a block

        def put(bs, at, is_fixed=False):
            need = at + len(bs) - len(bits)
            if need > 0:
                bits.extend([0] * need)
                fixed.extend([False] * need)
            bits[at : at + len(bs)] = bs
            fixed[at : at + len(bs)] = [is_fixed] * len(bs)

        terminal = False
        seeked = False
        for step, o in enumerate(case["ops"]):
            if seeked:
                break  # after an arbitrary writer seek only the final bytes are compared
            if ghost:
                gv = (step * 5 + 3) & 7
                try:
                    gw.write_nbits(3, gv)
                except Exception as e:  # noqa: BLE001
                    return viol(exc_sig("C20/second-writer-raised", e), "a second, independent writer raised:\n%s" % short_tb(e))
                gvals.append(gv)
            k = o["op"]
            shape.append(k[0] if k != "bb" else "B")
            stats["w:" + k] += 1
            try:
                if k in ("flush",):
                    w.flush()
                    continue
                if k == "wseek":
                    # documented: seeking to a byte overwrites the bits already
                    # set in that byte with 0 (the byte is rewritten from the
                    # writer's empty current byte once a bit is written or, for
                    # a mid-byte position, at the next flush)
                    if o["byte"] * 8 > pos:
                        continue
                    w.seek(o["byte"], o["bit"])
                    seeked = True
                    pos = o["byte"] * 8 + (7 - o["bit"])
                    entered = set()

                    def touch(kb):
                        # the writer rebuilds every byte it enters from an empty
                        # current byte: bits it does not write there become 0
                        if kb not in entered:
                            entered.add(kb)
                            put([0] * 8, kb * 8)

                    if o["bit"] != 7:
                        touch(o["byte"])  # a mid-byte position is flushed even if nothing is written
                    for t in o["then"]:
                        bs = m_bits(t)
                        if bs:
                            for kb in range(pos // 8, (pos + len(bs) - 1) // 8 + 1):
                                touch(kb)
                            w_apply(w, t)
                            put(bs, pos)
                            pos += len(bs)
                    if w.tell() != pos_tuple(pos):
                        return viol("C20/writer-tell-after-seek", "writer tell() %r, model %r after %r" % (w.tell(), pos_tuple(pos), o))
                    continue
                if k == "align":
                    n = (-pos) % 8
                    w.write_nbits(n, 0)
                    put([0] * n, pos, True)
                    if n:
                        layout.append(("v", {"op": "nbits", "n": n, "v": 0}, pos, n, 0))
                    pos += n
                elif k == "patch":
                    if pos % 8 or o["at"] + o["n"] > pos // 8 or not all(fixed[8 * o["at"] : 8 * (o["at"] + o["n"])]):
                        continue  # documented use only: aligned, inside what exists, over fixed-width fields
                    end = w.tell()
                    w.seek(o["at"])
                    val = o["v"] % (1 << (8 * o["n"]))
                    w.write_uint_lit(o["n"], val)
                    w.flush()
                    w.seek(*end)
                    put([(val >> i) & 1 for i in range(8 * o["n"] - 1, -1, -1)], 8 * o["at"], True)
                    stats["patches-applied"] += 1
                    # fixed-width values are re-derived from the model bits at read time
                elif k == "bb":
                    L = o["len"]
                    start = pos
                    w.bounded_block_begin(L)
                    remaining = L
                    inner_layout = []
                    for io_ in o["ops"]:
                        s = m_bits(io_)
                        before = w.tell()
                        if s is None:
                            try:
                                w_apply(w, io_)
                                return viol("C20/out-of-range-accepted/%s" % io_["op"], "out-of-range %r written inside a bounded block without OutOfRangeError" % (io_,))
                            except OutOfRangeError:
                                if w.tell() != before:
                                    return viol("C20/out-of-range-moved-cursor", "OutOfRangeError but tell() moved %r -> %r" % (before, w.tell()))
                                stats["out-of-range-rejected"] += 1
                                continue
                        fit = max(0, min(len(s), remaining))
                        tail = s[fit:]
                        if any(b == 0 for b in tail):
                            try:
                                w_apply(w, io_)
                                return viol("C20/zero-past-block-end-accepted", "%r writes a 0 past the end of a %d-bit bounded block but was accepted" % (io_, L))
                            except ValueError:
                                stats["zero-past-end-rejected"] += 1
                                # the state after a failed multi-bit write is not specified: end here
                                return Outcome(OK, events, stats=stats, nontrivial=len(case["ops"]) >= 2, key="".join(shape)[:24] + "|zero-past-end", ticks=step + 1)
                        w_apply(w, io_)
                        if tail:
                            stats["ones-past-end-accepted"] += 1
                        put(s[:fit], pos)
                        inner_layout.append((io_, len(s), fit))
                        pos += fit
                        remaining -= len(s)
                        if w.tell() != pos_tuple(pos):
                            return viol("C20/writer-tell", "writer tell() %r, model %r after %r in block" % (w.tell(), pos_tuple(pos), io_))
                    if terminal:
                        break
                    unused = w.bounded_block_end()
                    want_unused = max(0, remaining)
                    if unused != want_unused:
                        return viol("C20/writer-unused-bits", "bounded_block_end() returned %d, model %d" % (unused, want_unused))
                    fr = _random.Random(o["fseed"])
                    fill = [0 if o["fill"] == "0" else 1 if o["fill"] == "1" else fr.randrange(2) for _ in range(unused)]
                    w.write_bitarray(unused, bitarray(fill))
                    put(fill, pos)
                    pos += unused
                    layout.append(("bb", o, start, L, inner_layout, fill))
                else:
                    s = m_bits(o)
                    before = w.tell()
                    if s is None:
                        try:
                            w_apply(w, o)
                            return viol("C20/out-of-range-accepted/%s" % k, "out-of-range %r written without OutOfRangeError" % (o,))
                        except OutOfRangeError:
                            if w.tell() != before:
                                return viol("C20/out-of-range-moved-cursor", "OutOfRangeError but tell() moved %r -> %r" % (before, w.tell()))
                            stats["out-of-range-rejected"] += 1
                            continue
                    w_apply(w, o)
                    if k == "uint" and exp_golomb_length(o["v"]) != len(s):
                        return viol("C20/exp-golomb-length", "exp_golomb_length(%d)=%d, %d bits written" % (o["v"], exp_golomb_length(o["v"]), len(s)))
                    if k == "sint" and signed_exp_golomb_length(o["v"]) != len(s):
                        return viol("C20/signed-exp-golomb-length", "signed_exp_golomb_length(%d)=%d, %d bits written" % (o["v"], signed_exp_golomb_length(o["v"]), len(s)))
                    put(s, pos, k not in ("uint", "sint"))
                    layout.append(("v", o, pos, len(s), None))
                    pos += len(s)
                if w.tell() != pos_tuple(pos):
                    return viol("C20/writer-tell", "writer tell() %r, model %r after %r" % (w.tell(), pos_tuple(pos), o))
            except Exception as e:  # noqa: BLE001
                return viol(exc_sig("C20/writer-raised/%s" % k, e), "writer raised on %r:\n%s" % (o, short_tb(e)))
        step = len(case["ops"])
        try:
            w.flush()
        except Exception as e:  # noqa: BLE001
            return viol(exc_sig("C20/flush-raised", e), short_tb(e))
        total = len(bits)
        packed = bytearray((total + 7) // 8)
        for i, b in enumerate(bits):
            if b:
                packed[i // 8] |= 0x80 >> (i % 8)
        data = f.getvalue()
        events.append(("written", data.hex()))
        if bytes(packed) != data:
            return viol("C20/written-bytes", "file holds %s, model %s" % (data.hex(), bytes(packed).hex()))
        if ghost:
            gw.flush()
            gbits = "".join(format(v, "03b") for v in gvals)
            want_g = bytes(int((gbits + "0" * (-len(gbits) % 8))[i : i + 8], 2) for i in range(0, len(gbits) + (-len(gbits) % 8), 8))
            if gfile.getvalue() != want_g:
                return viol("C20/second-writer-bytes", "a second writer used in alternation wrote %s to its own file, expected %s (instances share state?)" % (gfile.getvalue().hex(), want_g.hex()))
            stats["second-writer-checked"] += 1
        if seeked:
            stats["writer-seeks"] += 1
            return Outcome(OK, events, stats=stats, nontrivial=len(case["ops"]) >= 2, key="".join(shape)[:24] + "|wseek", ticks=step)
        if terminal:
            return Outcome(OK, events, stats=stats, nontrivial=len(case["ops"]) >= 2, key="".join(shape)[:24] + "|zero-past-end", ticks=step)

        # ---------------- mirrored reads: full data and a truncated copy
        for label, cut in (("full", None), ("trunc", case["trunc"])):
            if label == "trunc" and cut is None:
                continue
            rdata = data if cut is None else data[: min(max(cut, npre), len(data))]
            avail = 8 * len(rdata)
            rf, df = SimFile(rdata), SimFile(rdata)
            rf.seek(npre)
            df.seek(npre)
            r = BitstreamReader(rf)
            gdata = bytes((73 * i + 41) & 0xFF for i in range(96))
            gr = BitstreamReader(SimFile(gdata)) if ghost else None
            gpos = 0
            st = State()
            _dec.init_io(st, df)
            p = 8 * npre
            stats["read-pass:" + label] += 1
            for (kind, o, start, nb, extra, *rest) in layout:
                if kind == "v":
                    want = expected_value(o, bits[start : start + nb])
                    hits_eof = start + nb > avail
                    got_r = got_d = None
                    er = ed = None
                    try:
                        got_r = r_apply(r, o)
                    except EOFError as e:
                        er = e
                    except Exception as e:  # noqa: BLE001
                        return viol(exc_sig("C20/reader-raised", e), "BitstreamReader raised on %r (%s):\n%s" % (o, label, short_tb(e)))
                    try:
                        got_d = d_apply(st, o, False)
                    except UnexpectedEndOfStream as e:
                        ed = e
                    except Exception as e:  # noqa: BLE001
                        return viol(exc_sig("C20/decoder-reader-raised", e), "decoder.io raised on %r (%s):\n%s" % (o, label, short_tb(e)))
                    if (er is None) != (ed is None):
                        return viol("C20/eof-disagreement", "%s: reading %r at bit %d of %d: BitstreamReader %s, decoder.io %s" % (label, o, start, avail, "EOFError" if er else "ok", "UnexpectedEndOfStream" if ed else "ok"))
                    if (er is not None) != hits_eof:
                        return viol("C20/eof-position", "%s: reading %r at bit %d needs %d bits, %d available, but EOF raised=%s" % (label, o, start, nb, avail, er is not None))
                    if er is not None:
                        stats["eof-agreed"] += 1
                        break
                    if got_r != want or got_d != want:
                        return viol("C20/value-mismatch/%s" % o["op"], "%s: wrote %r; model reads %r, BitstreamReader %r, decoder.io %r" % (label, o, want, got_r, got_d))
                    p = start + nb
                else:
                    L = nb
                    inner_layout, fill = extra, rest[0]
                    r.bounded_block_begin(L)
                    use_dec = L >= 0
                    if use_dec:
                        st["bits_left"] = L
                    q = start
                    remaining = L
                    eof = False
                    for io_, slen, fit in inner_layout:
                        on_wire = bits[q : q + fit] + [1] * (slen - fit)
                        want = expected_value(io_, on_wire)
                        hits_eof = q + fit > avail
                        er = ed = None
                        got_r = got_d = None
                        try:
                            got_r = r_apply(r, io_)
                        except EOFError as e:
                            er = e
                        try:
                            if use_dec:
                                got_d = d_apply(st, io_, True)
                        except UnexpectedEndOfStream as e:
                            ed = e
                        if use_dec and (er is None) != (ed is None):
                            return viol("C20/eof-disagreement", "%s: in %d-bit block reading %r: BitstreamReader %s, decoder.io %s" % (label, L, io_, "EOFError" if er else "ok", "UnexpectedEndOfStream" if ed else "ok"))
                        if (er is not None) != hits_eof:
                            return viol("C20/eof-position", "%s: in block reading %r at bit %d needs %d wire bits, %d available, EOF raised=%s" % (label, io_, q, fit, avail, er is not None))
                        if er is not None:
                            eof = True
                            break
                        if got_r != want or (use_dec and got_d != want):
                            return viol("C20/bounded-value-mismatch/%s" % io_["op"], "%s: in %d-bit block wrote %r (%d of %d bits fit); model reads %r, BitstreamReader %r, decoder.io %r" % (label, L, io_, fit, slen, want, got_r, got_d))
                        if case.get("reread") and L >= 0:
                            # what the bitstream viewer does after every value:
                            # seek back to where it started and read its (real)
                            # bits again; later reads must be unaffected
                            try:
                                r.seek(*pos_tuple(q))
                                again = [int(c) for c in r.read_bitarray(fit).to01()]
                            except Exception as e:  # noqa: BLE001
                                return viol(exc_sig("C20/reread-raised", e), "seek back + re-read inside a bounded block raised:\n%s" % short_tb(e))
                            if again != bits[q : q + fit] or r.tell() != pos_tuple(q + fit):
                                return viol("C20/reread-mismatch", "re-reading %d bits at bit %d inside a %d-bit block gave %r (tell %r), model %r" % (fit, q, L, again, r.tell(), bits[q : q + fit]))
                            stats["rereads-in-block"] += 1
                        q += fit
                        remaining -= slen
                    if eof:
                        stats["eof-agreed"] += 1
                        break
                    unused = r.bounded_block_end()
                    if case.get("reread") and L >= 0:
                        # after re-reads the overshoot is forgotten (documented
                        # seek behaviour): unused bits are those really left
                        remaining = max(remaining, 0) if remaining >= 0 else 0
                    if unused != max(0, remaining):
                        return viol("C20/reader-unused-bits", "reader bounded_block_end() %d, model %d" % (unused, max(0, remaining)))
                    hits_eof = q + unused > avail
                    try:
                        got_fill = [int(c) for c in r.read_bitarray(unused).to01()]
                        er = None
                    except EOFError as e:
                        er = e
                    ed = None
                    if use_dec:
                        try:
                            _dec.flush_inputb(st)
                        except UnexpectedEndOfStream as e:
                            ed = e
                        if (er is None) != (ed is None):
                            return viol("C20/eof-disagreement", "%s: flushing a bounded block: BitstreamReader %s, decoder.io %s" % (label, "EOFError" if er else "ok", "UnexpectedEndOfStream" if ed else "ok"))
                    if (er is not None) != hits_eof:
                        return viol("C20/eof-position", "%s: block padding of %d bits at %d, %d available, EOF raised=%s" % (label, unused, q, avail, er is not None))
                    if er is not None:
                        stats["eof-agreed"] += 1
                        break
                    if got_fill != fill:
                        return viol("C20/block-padding", "unused bounded-block bits read %r, written %r" % (got_fill, fill))
                    p = q + unused
                if ghost and gpos + 5 <= 8 * len(gdata):
                    try:
                        got_g = gr.read_nbits(5)
                    except Exception as e:  # noqa: BLE001
                        return viol(exc_sig("C20/second-reader-raised", e), "a second, independent reader raised:\n%s" % short_tb(e))
                    want_gv = (int.from_bytes(gdata, "big") >> (8 * len(gdata) - gpos - 5)) & 31
                    if got_g != want_gv:
                        return viol("C20/second-reader-value", "a second reader on its own file, used in alternation, read %d where its file holds %d (instances share state?)" % (got_g, want_gv))
                    gpos += 5
                    stats["second-reader-reads"] += 1
                want_tell = pos_tuple(p)
                if r.tell() != want_tell:
                    return viol("C20/reader-tell", "%s: BitstreamReader.tell() %r, model %r after %r" % (label, r.tell(), want_tell, o))
                if p < avail or p % 8 == 0:
                    dt = _dec.tell(st)
                    if dt != want_tell:
                        return viol("C20/decoder-tell", "%s: decoder.io tell() %r, model %r after %r" % (label, dt, want_tell, o))
        # ---------------- seeks and re-reads (BitstreamReader only)
        vals = [(o, start, nb) for (kind, o, start, nb, *_r) in layout if kind == "v" and nb > 0]
        if vals and case["seeks"]:
            r = BitstreamReader(SimFile(data))
            for sk in case["seeks"]:
                o, start, nb = vals[sk % len(vals)]
                try:
                    r.seek(*pos_tuple(start))
                    if r.tell() != pos_tuple(start):
                        return viol("C20/seek-tell", "after seek%r tell() is %r" % (pos_tuple(start), r.tell()))
                    got = r_apply(r, o)
                except Exception as e:  # noqa: BLE001
                    return viol(exc_sig("C20/seek-read-raised", e), "seek+read raised:\n%s" % short_tb(e))
                want = expected_value(o, bits[start : start + nb])
                if got != want:
                    return viol("C20/seek-read-mismatch", "after seek to bit %d read %r, model %r (%r)" % (start, got, want, o))
                stats["seek-reads"] += 1
        key = "%s|%s" % ("".join(shape)[:24], "t" if case["trunc"] is not None else "f")
        return Outcome(OK, events, stats=stats, nontrivial=len(case["ops"]) >= 2, key=key, ticks=step + len(layout))

    def extra_evidence(self, merged):
        st = merged["stats"]
        return {"write_ops": {k[2:]: v for k, v in st.items() if k.startswith("w:")}, "probes": {k: st[k] for k in ("out-of-range-rejected", "zero-past-end-rejected", "ones-past-end-accepted", "eof-agreed", "seek-reads") if k in st}}


register(C20())


# --------------------------------------------------------------------------
# C21 — serialiser/deserialiser framework round-trips description programs
# --------------------------------------------------------------------------

import copy as _copy  # noqa: E402
import random as _random  # noqa: E402

from vc2_conformance.bitstream.serdes import Serialiser, Deserialiser  # noqa: E402
from vc2_conformance.bitstream import exceptions as bs_exc  # noqa: E402
from vc2_conformance.fixeddict import fixeddict as _fixeddict  # noqa: E402

_T_NAMES = ["t%d" % i for i in range(16)] + ["L%d" % i for i in range(4)]
SD_TYPES = [
    _fixeddict("SimTypeA", *_T_NAMES, module=__name__),
    _fixeddict("SimTypeB", *_T_NAMES, module=__name__),
    _fixeddict("SimTypeC", *_T_NAMES, module=__name__),
]
SimTypeA, SimTypeB, SimTypeC = SD_TYPES

PRIMS = ["bool", "nbits", "uint_lit", "bitarray", "bytes", "uint", "sint"]


def gen_program(rng, depth=0, in_block=False, budget=None):
    """A random serdes program (list of op dicts) for ONE context."""
    budget = budget if budget is not None else [rng.randrange(4, 36)]
    ops = []
    names = iter(_T_NAMES[:16])
    lists = iter(_T_NAMES[16:])
    n = rng.randrange(1, 7)
    for _ in range(n):
        if budget[0] <= 0:
            break
        budget[0] -= 1
        r = rng.random()
        t = next(names, None)
        if t is None:
            break
        if r < 0.55:
            k = rng.choice(PRIMS)
            o = {"op": k, "t": t}
            if k == "nbits":
                o["n"] = rng.choice([0, 1, 3, 8, 11])
            elif k == "uint_lit":
                o["n"] = rng.choice([0, 1, 2])
            elif k == "bitarray":
                o["n"] = rng.choice([0, 1, 5, 9])
            elif k == "bytes":
                o["n"] = rng.choice([0, 1, 3])
            ops.append(o)
        elif r < 0.62:
            ops.append({"op": "byte_align", "t": t})
        elif r < 0.68:
            ops.append({"op": "computed_value", "t": t, "v": rng.choice([0, 7, "x", None, [1, 2]])})
        elif r < 0.8 and not in_block:
            body = [o for o in gen_program(rng, depth + 1, True, budget) if o["op"] in PRIMS or o["op"] == "byte_align"]
            # targets of the body live in the same context: rename to unused names
            for o in body:
                o["t"] = next(names, None)
            body = [o for o in body if o["t"] is not None]
            ops.append({"op": "bounded_block", "t": t, "len": rng.choice([0, 1, 4, 9, 17, 40]), "body": body})
        elif r < 0.92 and depth < 3:
            if rng.random() < 0.15:
                # a sub-description that needs no values from the user (only
                # computed values, or nothing at all)
                body = [{"op": "computed_value", "t": "t%d" % i, "v": rng.choice([0, 7, "x", None])} for i in range(rng.choice([0, 1, 2]))]
            else:
                body = gen_program(rng, depth + 1, in_block, budget)
            ops.append({"op": "subcontext", "t": t, "type": rng.choice([None, 0, 1, 2]), "body": body})
        elif depth < 3:
            lt = next(lists, None)
            if lt is None:
                continue
            ops.append({"op": "declare_list", "t": lt})
            reps = rng.randrange(0, 4)
            if rng.random() < 0.5:
                k = rng.choice(["uint", "sint", "bool", "nbits"])
                for _i in range(reps):
                    o = {"op": k, "t": lt}
                    if k == "nbits":
                        o["n"] = 4
                    ops.append(o)
            else:
                body = gen_program(rng, depth + 1, in_block, budget)
                ty = rng.choice([None, 0, 1, 2])
                for _i in range(reps):
                    ops.append({"op": "subcontext", "t": lt, "type": ty, "body": _copy.deepcopy(body)})
    return ops


def run_program(sd, prog):
    for o in prog:
        k = o["op"]
        if k == "bool":
            sd.bool(o["t"])
        elif k == "nbits":
            sd.nbits(o["t"], o["n"])
        elif k == "uint_lit":
            sd.uint_lit(o["t"], o["n"])
        elif k == "bitarray":
            sd.bitarray(o["t"], o["n"])
        elif k == "bytes":
            sd.bytes(o["t"], o["n"])
        elif k == "uint":
            sd.uint(o["t"])
        elif k == "sint":
            sd.sint(o["t"])
        elif k == "byte_align":
            sd.byte_align(o["t"])
        elif k == "computed_value":
            sd.computed_value(o["t"], _copy.deepcopy(o["v"]))
        elif k == "declare_list":
            sd.declare_list(o["t"])
        elif k == "bounded_block":
            with sd.bounded_block(o["t"], o["len"]):
                run_program(sd, o["body"])
        elif k == "bb_begin_unclosed":
            sd.bounded_block_begin(o["len"])
            run_program(sd, o["body"])
        elif k == "subcontext":
            with sd.subcontext(o["t"]):
                if o["type"] is not None:
                    sd.set_context_type(SD_TYPES[o["type"]])
                run_program(sd, o["body"])
        elif k == "sub_enter_unclosed":
            sd.subcontext_enter(o["t"])
            run_program(sd, o["body"])
        else:
            raise ValueError(k)


def plainify(x):
    """Deep copy of a description with every (fixed) dict turned into a plain
    dict — what a user writing the description by hand would pass in."""
    if isinstance(x, dict):
        return {k: plainify(v) for k, v in x.items()}
    if isinstance(x, list):
        return [plainify(v) for v in x]
    return x


def typed_paths(prog, path=()):
    """[(path tuple, type index)] for every typed subcontext of the program;
    list targets get an index in the path."""
    out = []
    counts = {}
    lists = set()
    for o in prog:
        if o["op"] == "declare_list":
            lists.add(o["t"])
        if o["op"] == "subcontext":
            if o["t"] in lists:
                i = counts.get(o["t"], 0)
                counts[o["t"]] = i + 1
                p = path + (o["t"], i)
            else:
                p = path + (o["t"],)
            if o["type"] is not None:
                out.append((p, o["type"]))
            out += typed_paths(o["body"], p)
    return out


def walk(ctx, path):
    for p in path:
        ctx = ctx[p]
    return ctx


def contexts_of(prog, ctx, acc=None, lists=None):
    """Enumerate (context dict, program of that context) pairs."""
    acc = acc if acc is not None else []
    acc.append((ctx, prog))
    counts = {}
    ls = set()
    for o in prog:
        if o["op"] == "declare_list":
            ls.add(o["t"])
        if o["op"] == "subcontext":
            if o["t"] in ls:
                i = counts.get(o["t"], 0)
                counts[o["t"]] = i + 1
                contexts_of(o["body"], ctx[o["t"]][i], acc)
            else:
                contexts_of(o["body"], ctx[o["t"]], acc)
    return acc


class C21(Spec):
    prop = "C21"
    sim = "D"
    title = "Serialiser/deserialiser framework round-trips arbitrary description programs"
    quick_runs = 150000
    thorough_runs = 4000000
    chunk = 2000
    tick_unit = "serdes primitive operations"
    state_measure = "distinct (program shape, history fault, outcome) tuples"
    components = {
        "real": ["vc2_conformance.bitstream.serdes Serialiser / Deserialiser (incl. declare_list, subcontext, set_context_type, bounded_block, byte_align, computed_value, default values, verify_complete)", "vc2_conformance.bitstream.io reader/writer", "vc2_conformance.fixeddict (harness-defined typed contexts)"],
        "stub": ["file objects (sim.core.SimFile)"],
    }
    assumptions = [
        "single-node, sequential: no scheduler/clock dimension; seeded program/history search with a differential (round-trip) oracle and expected-exception rules",
        "values are obtained by deserialising a seeded random bit string with the program, so they are legal for it (also past bounded-block ends)",
        "default values are only supplied for fixed-width targets (so that a defaulted value cannot change the layout)",
    ]
    rule = (
        "each run = a random serdes program (depth <= 3, <= ~36 ops: bool, nbits, uint_lit, bitarray, bytes, uint, sint, "
        "byte_align, bounded_block, declare_list with primitive or sub-description elements, subcontext with or without "
        "set_context_type to a harness-defined fixeddict, computed_value), a seeded random input bit string, and one "
        "history fault: none / truncated input / deleted needed value (with or without a default) / added unused value / "
        "reused target / unclosed bounded block / unclosed subcontext. Judged: deserialise -> serialise reproduces the "
        "consumed bits, re-deserialise gives an equal description; typed subcontexts are reachable as their fixeddict type "
        "from serdes.context; each fault raises exactly the documented error class (or succeeds through the default table). "
        "non-trivial = program with >= 3 ops."
    )

    def generate(self, rng, idx, tier):
        prog = gen_program(rng)
        fault = rng.choice(["none", "none", "none", "truncate", "delete", "delete_default", "unused", "unused_list", "junk_list", "default_and_unused", "omit_sub_and_unused", "omit_sub_and_unused", "reuse", "unclosed_bb", "unclosed_sub"])
        return {"prog": prog, "bits_seed": rng.randrange(1 << 30), "nbytes": rng.choice([64, 64, 200]), "fault": fault, "fsel": rng.randrange(1 << 16), "ones": rng.random() < 0.2, "plain": rng.random() < 0.5, "le_bitarrays": rng.random() < 0.25}

    def shrink(self, case):
        def variants(prog):
            for p in shrink_list(prog):
                yield p
            for i, o in enumerate(prog):
                if "body" in o and o["body"]:
                    for b in variants(o["body"]):
                        yield prog[:i] + [dict(o, body=b)] + prog[i + 1 :]

        for p in variants(case["prog"]):
            yield dict(case, prog=p)
        if case.get("plain") is False:
            return

    def execute(self, case):  # noqa: C901
        stats = Counter()
        events = [("case", repr(case))]
        prog = _copy.deepcopy(case["prog"])
        fault = case["fault"]
        rnd = _random.Random(case["bits_seed"])
        data = bytes((0xFF if case["ones"] and rnd.random() < 0.5 else rnd.randrange(256)) for _ in range(case["nbytes"]))
        nops = [0]

        def count(p):
            for o in p:
                nops[0] += 1
                if "body" in o:
                    count(o["body"])

        count(prog)
        key = "%s|n=%d" % (fault, min(nops[0], 40))
        nontrivial = nops[0] >= 3
        stats["fault:" + fault] += 1

        def viol(sig, detail):
            return Outcome(VIOLATION, events, sig=sig, detail="fault=%s program=%r\n%s" % (fault, case["prog"], detail), stats=stats, nontrivial=nontrivial, key=key, ticks=nops[0])

        def ok(note=None):
            if note:
                stats[note] += 1
            return Outcome(OK, events, stats=stats, nontrivial=nontrivial, key=key, ticks=nops[0])

        # ---- program-level faults
        fr = _random.Random(case["fsel"])
        flat = []

        def collect(p):
            for i, o in enumerate(p):
                flat.append((p, i, o))
                if "body" in o:
                    collect(o["body"])

        collect(prog)
        expect_deser = None
        if fault == "reuse":
            cands = [(p, i, o) for (p, i, o) in flat if o["op"] in PRIMS and not o["t"].startswith("L")]
            if not cands:
                fault = "none"
            else:
                p, i, o = fr.choice(cands)
                p.insert(i + 1, dict(o))
                expect_deser = bs_exc.ReusedTargetError
        elif fault == "unclosed_bb":
            # only the last top-level op, so that the layout is unchanged
            if not prog or prog[-1]["op"] != "bounded_block":
                fault = "none"
            else:
                prog[-1] = dict(prog[-1], op="bb_begin_unclosed")
                expect_deser = bs_exc.UnclosedBoundedBlockError
        elif fault == "unclosed_sub":
            if not prog or prog[-1]["op"] != "subcontext" or prog[-1]["t"].startswith("L"):
                fault = "none"
            else:
                prog[-1] = dict(prog[-1], op="sub_enter_unclosed")
                expect_deser = bs_exc.UnclosedNestedContextError
        if fault == "truncate":
            data = data[: fr.choice([0, 1, 2, 3, 5])]

        # ---- deserialise
        f = SimFile(data)
        reader = BitstreamReader(f)
        des = None
        try:
            with Deserialiser(reader) as des:
                run_program(des, prog)
            dexc = None
        except Exception as e:  # noqa: BLE001
            dexc = e
        events.append(("deser", type(dexc).__name__ if dexc else None))
        if isinstance(dexc, EOFError):
            if fault == "truncate" or True:
                # the random input was too short for this program: outside the
                # round-trip domain (counted); with 'truncate' this is the fault
                return ok("deser-eof")
        if expect_deser is not None:
            if dexc is None:
                return viol("C21/%s-not-detected-deserialising" % fault, "deserialisation succeeded although the program has a %s fault" % fault)
            if not isinstance(dexc, expect_deser):
                return viol(exc_sig("C21/%s-wrong-exception-deserialising" % fault, dexc), "expected %s, got:\n%s" % (expect_deser.__name__, short_tb(dexc)))
            if fault == "reuse":
                stats["reuse-rejected-deserialising"] += 1
        elif dexc is not None:
            return viol(exc_sig("C21/deserialise-raised", dexc), "deserialising a random bit string with a well-formed program raised:\n%s" % short_tb(dexc))
        if dexc is not None:
            # faults detected while deserialising are also checked serialising,
            # with a description obtained from the un-faulted program
            des2 = Deserialiser(BitstreamReader(SimFile(data)))
            try:
                with des2:
                    run_program(des2, case["prog"])
            except Exception:  # noqa: BLE001
                return ok("faulted-program-only-deserialised")
            g = SimFile()
            wtr = BitstreamWriter(g)
            cin = _copy.deepcopy(des2.context)
            if fault == "unclosed_bb":
                # the block's unused-bits target is never reached by the faulted
                # program; remove it so that the unclosed block is the only fault
                cin.pop(prog[-1]["t"], None)
            try:
                with Serialiser(wtr, cin) as ser:
                    run_program(ser, prog)
                return viol("C21/%s-not-detected-serialising" % fault, "serialisation succeeded although the program has a %s fault" % fault)
            except expect_deser:
                return ok("fault-rejected-both-directions")
            except Exception as e:  # noqa: BLE001
                return viol(exc_sig("C21/%s-wrong-exception-serialising" % fault, e), "expected %s, got:\n%s" % (expect_deser.__name__, short_tb(e)))
        ctx1 = des.context
        from vc2_conformance.bitstream.io import to_bit_offset

        consumed = to_bit_offset(*reader.tell())
        # ---- tree consistency after set_context_type
        for path, ty in typed_paths(prog):
            try:
                node = walk(ctx1, path)
            except Exception as e:  # noqa: BLE001
                return viol("C21/typed-context-unreachable", "typed subcontext at %r not reachable from serdes.context: %r" % (path, e))
            if type(node) is not SD_TYPES[ty]:
                return viol("C21/context-type-lost", "subcontext at %r is a %s, not %s" % (path, type(node).__name__, SD_TYPES[ty].__name__))
        # ---- description-level faults
        ctx_in = _copy.deepcopy(ctx1)
        expect_ser = None
        defaults = {}
        decoys = {}
        if fault in ("delete", "delete_default", "unused", "unused_list", "junk_list", "default_and_unused", "omit_sub_and_unused"):
            pairs = contexts_of(prog, ctx_in)
            if fault in ("delete", "delete_default"):
                cands = []
                for c, p in pairs:
                    for o in p:
                        if o["op"] in PRIMS and not o["t"].startswith("L") and o["t"] in c:
                            if fault == "delete" or (o["op"] in ("bool", "nbits", "uint_lit") and type(c) in SD_TYPES):
                                cands.append((c, o))
                if not cands:
                    fault = "none"
                else:
                    c, o = fr.choice(cands)
                    del c[o["t"]]
                    if fault == "delete_default":
                        defaults = {type(c): {o["t"]: False if o["op"] == "bool" else 0}}
                    else:
                        expect_ser = (KeyError, bs_exc.ListTargetExhaustedError)
                        if case.get("decoys", True):
                            # the default table holds a value for this target
                            # name under every OTHER context type (e.g. the
                            # enclosing context's): none of them may be used
                            decoys = {T: {o["t"]: 0} for T in SD_TYPES if T is not type(c)}
            elif fault == "unused":
                c, p = fr.choice(pairs)

                def targets(q):
                    out = set()
                    for o in q:
                        out.add(o["t"])
                        if o["op"] in ("bounded_block", "bb_begin_unclosed"):
                            out |= targets(o["body"])
                    return out

                used = targets(p)
                free = [t for t in _T_NAMES if t not in used]
                if not free:
                    fault = "none"
                else:
                    c[free[0]] = 123
                    expect_ser = (bs_exc.UnusedTargetError,)
            elif fault == "default_and_unused":
                # two cooperating faults in ONE context: a value left to the
                # default table and an extra value nobody uses — the extra one
                # must still make serialisation fail
                cands = []
                for c, p in pairs:
                    if type(c) in SD_TYPES:
                        for o in p:
                            if o["op"] in ("bool", "nbits", "uint_lit") and not o["t"].startswith("L") and o["t"] in c:
                                cands.append((c, p, o))
                if not cands:
                    fault = "none"
                else:
                    c, p, o = fr.choice(cands)

                    def targets2(q):
                        out = set()
                        for oo in q:
                            out.add(oo["t"])
                            if oo["op"] in ("bounded_block", "bb_begin_unclosed"):
                                out |= targets2(oo["body"])
                        return out

                    free = [t for t in _T_NAMES if t not in targets2(p)]
                    if not free:
                        fault = "none"
                    else:
                        del c[o["t"]]
                        c[free[0]] = 123
                        defaults = {type(c): {o["t"]: False if o["op"] == "bool" else 0}}
                        expect_ser = (bs_exc.UnusedTargetError,)
            elif fault == "omit_sub_and_unused":
                # two cooperating faults in one (non-root) context: a nested
                # sub-description that needs no user values is left out
                # altogether (legal: the serialiser creates it), and the context
                # holds a value nobody uses — which must still be reported
                cands = []
                for c, p in pairs[1:]:
                    subs = [o for o in p if o["op"] == "subcontext"]
                    if subs and not subs[-1]["t"].startswith("L") and all(b["op"] == "computed_value" for b in subs[-1]["body"]) and subs[-1]["t"] in c:
                        cands.append((c, p, subs[-1]))
                if not cands:
                    fault = "none"
                else:
                    c, p, o = fr.choice(cands)

                    def targets3(q):
                        out = set()
                        for oo in q:
                            out.add(oo["t"])
                            if oo["op"] in ("bounded_block", "bb_begin_unclosed"):
                                out |= targets3(oo["body"])
                        return out

                    free = [t for t in _T_NAMES if t not in targets3(p)]
                    if not free:
                        fault = "none"
                    else:
                        del c[o["t"]]
                        c[free[0]] = 123
                        expect_ser = (bs_exc.UnusedTargetError,)
            elif fault == "junk_list":
                # a non-list value provided under a list target: it can be
                # neither used nor ignored, so serialisation has to fail
                cands = [(c, o["t"]) for c, p in pairs for o in p if o["op"] == "declare_list"]
                if not cands:
                    fault = "none"
                else:
                    c, t = fr.choice(cands)
                    c[t] = fr.choice([0, False, None, "", {}, 5, "abc", {"x": 1}])
                    expect_ser = (Exception,)
            else:
                cands = [(c, o["t"]) for c, p in pairs for o in p if o["op"] == "declare_list"]
                if not cands:
                    fault = "none"
                else:
                    c, t = fr.choice(cands)
                    c[t].append(c[t][-1] if c[t] else 0)
                    expect_ser = (bs_exc.UnusedTargetError,)
        # ---- serialise (half of the runs from a description made of plain
        # dicts, as a user would supply it: set_context_type then has to
        # convert every sub-description and keep the tree consistent)
        if case.get("plain") and fault != "default_and_unused":
            ctx_in = plainify(ctx_in)
            defaults = {}
            if fault == "delete_default":
                fault = "none"
                ctx_in = plainify(_copy.deepcopy(ctx1))
            stats["serialised-from-plain-dicts"] += 1
        if case.get("le_bitarrays"):
            # equal descriptions must serialise to equal bytes: every bit-array
            # value is replaced by an equal array of the other bit-endianness
            nle = [0]

            def _le(x):
                if isinstance(x, bitarray):
                    nle[0] += 1
                    return bitarray(x.to01(), endian="little")
                if isinstance(x, dict):
                    for k_ in list(x):
                        x[k_] = _le(x[k_])
                elif isinstance(x, list):
                    for i_ in range(len(x)):
                        x[i_] = _le(x[i_])
                return x

            ctx_in = _le(ctx_in)
            stats["little-endian-bitarray-values"] += nle[0]
        g = SimFile()
        wtr = BitstreamWriter(g)
        ser = None
        try:
            table = dict(decoys)
            table.update(defaults)
            with Serialiser(wtr, ctx_in, table) as ser:
                run_program(ser, prog)
            wtr.flush()
            sexc = None
        except Exception as e:  # noqa: BLE001
            sexc = e
        events.append(("ser", type(sexc).__name__ if sexc else None, g.getvalue().hex()[:64]))
        if expect_ser is not None:
            if sexc is None:
                return viol("C21/%s-not-detected" % fault, "serialisation succeeded although the description has a '%s' fault" % fault)
            if not isinstance(sexc, expect_ser):
                return viol(exc_sig("C21/%s-wrong-exception" % fault, sexc), "expected %s, got:\n%s" % ("/".join(x.__name__ for x in expect_ser), short_tb(sexc)))
            return ok("fault-rejected-serialising")
        if sexc is not None:
            return viol(exc_sig("C21/serialise-raised", sexc), "serialising the deserialised description with the same program raised:\n%s" % short_tb(sexc))
        out = g.getvalue()
        for path, ty in typed_paths(prog):
            try:
                node = walk(ser.context, path)
            except Exception as e:  # noqa: BLE001
                return viol("C21/typed-context-unreachable-serialising", "typed subcontext at %r not reachable from the serialiser's context: %r" % (path, e))
            if type(node) is not SD_TYPES[ty]:
                return viol("C21/context-type-lost-serialising", "after serialising, the subcontext at %r is a %s, not %s" % (path, type(node).__name__, SD_TYPES[ty].__name__))
        if fault == "delete_default":
            # the default replaced the deleted value: the layout is unchanged
            ctx_d, e2 = None, None
            try:
                d3 = Deserialiser(BitstreamReader(SimFile(out + bytes(8))))
                with d3:
                    run_program(d3, prog)
                ctx_d = d3.context
            except Exception as e:  # noqa: BLE001
                e2 = e
            if e2 is not None:
                return viol(exc_sig("C21/default-output-unreadable", e2), "output written with a default value does not deserialise:\n%s" % short_tb(e2))
            return ok("default-value-used")
        nbytes = (consumed + 7) // 8
        want = bytearray(data[:nbytes])
        if consumed % 8:
            want[-1] &= (0xFF << (8 - consumed % 8)) & 0xFF
        if out != bytes(want):
            return viol("C21/bytes-differ", "serialised %s, consumed input %s (%d bits)" % (out.hex(), bytes(want).hex(), consumed))
        d3 = Deserialiser(BitstreamReader(SimFile(out + bytes(8))))
        try:
            with d3:
                run_program(d3, prog)
        except Exception as e:  # noqa: BLE001
            return viol(exc_sig("C21/redeserialise-raised", e), short_tb(e))
        if d3.context != ctx1:
            return viol("C21/description-differs", "second description %r != first %r" % (d3.context, ctx1))
        stats["round-trips"] += 1
        return ok()

    def extra_evidence(self, merged):
        st = merged["stats"]
        return {"history_faults": {k[6:]: v for k, v in st.items() if k.startswith("fault:")}, "probes": {k: v for k, v in st.items() if not k.startswith("fault:")}}


register(C21())
