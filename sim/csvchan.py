"""Simulation A' — text channel on the codec-features CSV at rest (C28).

Weakest fit of the technique (DESIGN.md section 8): the only seam is a
configuration file at rest; faults are storage faults at character / cell /
line level on the stored sample files.  Honest label: seeded fault-sequence
search with a domain oracle; no scheduler, clock or multi-party dimension.
"""

import io
import os
from collections import Counter, OrderedDict

from sim.core import Spec, Outcome, OK, VIOLATION, DISCARD, VERIF, exc_sig, short_tb, shrink_list, register, ensure_repo

ensure_repo()

from vc2_conformance.codec_features import read_codec_features_csv, InvalidCodecFeaturesError, CodecFeatures  # noqa: E402
from vc2_data_tables import (  # noqa: E402
    Levels, Profiles, PictureCodingModes, WaveletFilters, ColorDifferenceSamplingFormats, SourceSamplingModes,
    PresetColorPrimaries, PresetColorMatrices, PresetTransferFunctions,
)

BASES = ["codec_features.csv", "sample_codec_features.csv", "sample_codec_features_invalid.csv"]
_TEXT = {}


def base_text(name):
    if name not in _TEXT:
        with open(os.path.join(VERIF, "corpus", name), "rb") as f:
            _TEXT[name] = f.read().decode("utf-8")
    return _TEXT[name]


CELL_VALUES = [
    "9223372036854775808", "9223372036854775807", "18446744073709551616", "-9223372036854775809", "4294967296", "2147483648", "65536", "256",
    "9223372036854775808", "18446744073709551615", "1" + "0" * 40, "-" + "9" * 25,
    "cafe\u0301", "caf\u00e9", "\u212b", "\u00c5", "A\u030a", "\ufb01", "fi", "\u1e9b\u0323", "minimal\u200b", "mini\u00admal",
    "30000/0", "1/0", "64/0", "0/0", "-1/0", "30000/1001", "1/2", "4/2", "1e400", "1e-400", "inf", "-inf", "nan", "Infinity", "0.0", "1.0", "1e0", "\uff11\uff12", "1 000", "0b1", "0o7", "1j", "1L", "--1", "+-1",
    "", "default", "DEFAULT", "0", "1", "-1", "2", "3", "64", "999", "1e3", "1.5", "0x10", " 7 ", "+5", "1_0", "٣", "TRUE", "false", "yes", "maybe",
    "high_quality", "low_delay", "unconstrained", "hd", "pictures_are_fields", "le_gall_5_3", "fidelity", "color_4_2_0", "interlaced",
    "real", "imag", "numerator", "denominator", "conjugate", "bit_length", "to_bytes", "mro", "value", "__doc__", "__class__", "__members__", "__name__", "_member_names_", "None", "True",
    "hd_{lossy}", "{0}", "a{b", "cfg{}", "x}y", "%s", "100%", "column_A", "column_B", "column_C", "column_D", "column_E", "minimal", "hd",
    "custom_format", "hd1080p_50", "0 0 0 0", "1 2 3", "1 2 3 4 5 6 7", "a b c d", "-1 -1 -1 -1", "\"", "\"x", "a,b", "9" * 30, "9" * 5000, "\x00", "\ufeff", "name",
]
ROW_KEYS = ["name", "level", "profile", "base_video_format", "picture_coding_mode", "frame_width", "frame_height", "color_diff_format_index", "source_sampling",
            "top_field_first", "frame_rate_numer", "frame_rate_denom", "pixel_aspect_ratio_numer", "pixel_aspect_ratio_denom", "clean_width", "clean_height",
            "left_offset", "top_offset", "luma_offset", "luma_excursion", "color_diff_offset", "color_diff_excursion", "color_primaries_index",
            "color_matrix_index", "transfer_function_index", "wavelet_index", "wavelet_index_ho", "dwt_depth", "dwt_depth_ho", "slices_x", "slices_y",
            "lossless", "picture_bytes", "fragment_slice_count", "quantization_matrix"]


def apply_text_fault(text, f):
    k = f["k"]
    lines = text.split("\n")
    if k == "trunc":
        return text[: f["at"] % (len(text) + 1)]
    if k == "drop_line" and lines:
        del lines[f["i"] % len(lines)]
        return "\n".join(lines)
    if k == "dup_line" and lines:
        i = f["i"] % len(lines)
        lines.insert(i, lines[i])
        return "\n".join(lines)
    if k == "swap_lines" and len(lines) > 1:
        i, j = f["i"] % len(lines), f["j"] % len(lines)
        lines[i], lines[j] = lines[j], lines[i]
        return "\n".join(lines)
    if k == "cell":
        # overwrite column c of the row whose key is row (or line index)
        idxs = [n for n, l in enumerate(lines) if l.split(",")[0].strip() == f["row"]] if isinstance(f["row"], str) else [f["row"] % len(lines)]
        if not idxs:
            return text
        n = idxs[0]
        cells = lines[n].split(",")
        c = 1 + f["col"] % max(1, len(cells) - 1) if len(cells) > 1 else 0
        if c < len(cells):
            cells[c] = f["v"]
        lines[n] = ",".join(cells)
        return "\n".join(lines)
    if k == "name_collision":
        # column i is explicitly given the default name ("column_<letter>") of
        # column j, whose own name cell is blanked
        idxs = [n for n, l in enumerate(lines) if l.split(",")[0].strip() == "name"]
        if not idxs:
            return text
        n = idxs[0]
        cells = lines[n].split(",")
        ncol = len(cells) - 1
        if ncol < 2:
            return text
        i, j = f["i"] % ncol, f["j"] % ncol
        if i == j:
            j = (j + 1) % ncol
        letters = "ABCDEFGHIJKLMNOPQRSTUVWXYZ"
        cells[1 + i] = "column_" + letters[(1 + j) % 26]
        cells[1 + j] = ""
        lines[n] = ",".join(cells)
        return "\n".join(lines)
    if k == "col_pair":
        # two cells of ONE column (two cooperating sites)
        for row, v in ((f["row1"], f["v1"]), (f["row2"], f["v2"])):
            idxs = [n for n, l in enumerate(lines) if l.split(",")[0].strip() == row]
            if not idxs:
                continue
            cells = lines[idxs[0]].split(",")
            c = 1 + f["col"] % max(1, len(cells) - 1) if len(cells) > 1 else 0
            if c < len(cells):
                cells[c] = v
            lines[idxs[0]] = ",".join(cells)
        return "\n".join(lines)
    if k == "cell_copy":
        # the text of one column's cell stored into another column of the same
        # row (two columns then hold byte-identical text in that row)
        idxs = [n for n, l in enumerate(lines) if l.split(",")[0].strip() == f["row"]]
        if not idxs:
            return text
        cells = lines[idxs[0]].split(",")
        ncol = len(cells) - 1
        if ncol < 2:
            return text
        a, b = 1 + f["from"] % ncol, 1 + f["to"] % ncol
        cells[b] = cells[a]
        lines[idxs[0]] = ",".join(cells)
        return "\n".join(lines)
    if k == "add_row":
        cells = [f["key"]] + [f["v"]] * f["ncol"]
        lines.insert(f["i"] % (len(lines) + 1), ",".join(cells))
        return "\n".join(lines)
    if k == "many_cols":
        # a very wide table: column ``src`` repeated n more times, the copies'
        # name cells blank (default names column_<letters>) or numbered
        out = []
        for l in lines:
            cells = l.split(",")
            key = cells[0].strip()
            if len(cells) < 2 or not key or key.startswith("#"):
                out.append(l + "," * f["n"])
                continue
            v = cells[1 + f["src"] % (len(cells) - 1)]
            if key == "name":
                extra = ["" if f["blank"] else "w%d" % i for i in range(f["n"])]
            else:
                extra = [v] * f["n"]
            out.append(l + "," + ",".join(extra))
        return "\n".join(out)
    if k == "add_col":
        return "\n".join(l + "," + (f["v"] if l.split(",")[0].strip() and not l.startswith("#") else "") for l in lines)
    if k == "char":
        if not text:
            return text
        at = f["at"] % len(text)
        return text[:at] + f["v"] + text[at + 1 :]
    if k == "ins":
        at = f["at"] % (len(text) + 1)
        return text[:at] + f["v"] + text[at:]
    if k == "crlf":
        return text.replace("\n", f["v"])
    if k == "bom":
        return "\ufeff" + text
    return text


class C28(Spec):
    prop = "C28"
    sim = "A'"
    title = "Codec-features CSV reading either succeeds in-domain or explains"
    quick_runs = 200000
    thorough_runs = 5000000
    chunk = 2000
    tick_unit = "text lines delivered to the CSV reader"
    state_measure = "distinct (base file, fault-kind set, outcome class) tuples"
    components = {
        "real": ["vc2_conformance.codec_features.read_codec_features_csv (incl. csv module, enum/int/bool/matrix parsers)"],
        "stub": ["the stored file: text delivered as UTF-8 bytes through io.TextIOWrapper(encoding='utf-8-sig'), as the CLI's argparse FileType does"],
    }
    assumptions = [
        "weakest fit of the technique: a configuration file at rest, storage faults at character/cell/line level; no scheduler or clock",
        "inputs stay valid UTF-8 and below 2 MiB, every field far below the csv module's 128 KiB field limit (which is not part of the statement)",
    ]
    rule = (
        "each run = one of three stored sample CSV files with an explicit list of 0-4 storage faults (truncate at a "
        "character, drop/duplicate/swap lines, overwrite a cell with empty/'default'/malformed numbers/out-of-range "
        "enums/odd strings, add rows with known or unknown keys, add a column, replace/insert characters incl. quotes, "
        "NUL and BOM, CR/LF changes). Judged: read_codec_features_csv returns an OrderedDict whose every CodecFeatures "
        "lies in the documented domains (enum members, integer minimums, picture_bytes None iff lossless, matrix shape "
        "for the declared depths, unique names) or raises InvalidCodecFeaturesError; anything else is a violation. "
        "non-trivial = >= 1 fault changed the text."
    )

    def generate(self, rng, idx, tier):
        base = rng.choice(BASES)
        text = base_text(base)
        nlines = text.count("\n") + 1
        r = rng.random()
        nf = 0 if r < 0.05 else 1 if r < 0.55 else 2 if r < 0.8 else rng.choice([3, 4])
        faults = []
        for _ in range(nf):
            k = rng.choice(["trunc", "drop_line", "dup_line", "swap_lines", "cell", "cell", "cell", "cell", "add_row", "add_col", "char", "ins", "crlf", "bom", "name_collision", "col_pair", "col_pair", "cell_copy", "cell_copy"])
            if rng.random() < 0.004:
                k = "many_cols"
            f = {"k": k}
            if k == "trunc":
                f["at"] = rng.randrange(len(text) + 1)
            elif k in ("drop_line", "dup_line"):
                f["i"] = rng.randrange(nlines)
            elif k == "swap_lines":
                f["i"], f["j"] = rng.randrange(nlines), rng.randrange(nlines)
            elif k == "name_collision":
                f["i"], f["j"] = rng.randrange(8), rng.randrange(8)
            elif k == "many_cols":
                f["n"] = rng.choice([30, 300, 700, 720, 1000])
                f["src"] = rng.randrange(8)
                f["blank"] = rng.random() < 0.7
            elif k == "cell_copy":
                f["row"] = rng.choice(ROW_KEYS + ["quantization_matrix"] * 6 + ["dwt_depth", "dwt_depth_ho", "picture_bytes", "lossless"])
                f["from"], f["to"] = rng.randrange(8), rng.randrange(8)
            elif k == "col_pair":
                f["col"] = rng.randrange(8)
                f["row1"] = rng.choice(["name", "name", "lossless", "dwt_depth", "dwt_depth_ho", "dwt_depth", "dwt_depth_ho", "profile", "quantization_matrix", "picture_bytes", "wavelet_index"])
                f["row2"] = rng.choice(ROW_KEYS)
                f["v1"], f["v2"] = rng.choice(CELL_VALUES), rng.choice(CELL_VALUES)
            elif k == "cell":
                f["row"] = rng.choice(ROW_KEYS + ["name", "name", "name"]) if rng.random() < 0.85 else rng.randrange(nlines)
                f["col"] = rng.randrange(8)
                f["v"] = rng.choice(CELL_VALUES)
            elif k == "add_row":
                f["key"] = rng.choice(ROW_KEYS + ["bogus_row", "", "#x", "NAME"])
                f["v"] = rng.choice(CELL_VALUES)
                f["ncol"] = rng.choice([0, 1, 4, 9])
                f["i"] = rng.randrange(nlines + 1)
            elif k == "add_col":
                f["v"] = rng.choice(CELL_VALUES)
            elif k == "char":
                f["at"] = rng.randrange(1 << 20)
                f["v"] = rng.choice([",", "\"", "\n", "\r", " ", "\t", "x", "0", "-", "\x00", "\u00e9", "#", "'"])
            elif k == "ins":
                f["at"] = rng.randrange(1 << 20)
                f["v"] = rng.choice([",", "\"", "\"\"", "\n\n", "\r\n", ",,,,", "\x00", "\ufeff", "\"a\nb\"", "#"])
            elif k == "crlf":
                f["v"] = rng.choice(["\r\n", "\r", "\n\r"])
            faults.append(f)
        return {"base": base, "faults": faults}

    def execute(self, case):
        stats = Counter()
        events = [("case", case["base"], repr(case["faults"]))]
        clean = base_text(case["base"])
        text = clean
        for f in case["faults"]:
            text = apply_text_fault(text, f)
            stats["fault:" + f["k"]] += 1
        changed = text != clean
        raw = text.encode("utf-8", errors="ignore")
        if len(raw) > (1 << 21):
            stats["discard:too-long"] += 1
            return Outcome(DISCARD, events, stats=stats)
        fobj = io.TextIOWrapper(io.BytesIO(raw), encoding="utf-8-sig")
        kinds = ",".join(sorted(set(f["k"] for f in case["faults"]))) or "none"
        ticks = text.count("\n") + 1
        try:
            out = read_codec_features_csv(fobj)
            exc = None
        except InvalidCodecFeaturesError as e:
            exc = e
        except Exception as e:  # noqa: BLE001
            events.append(("raised", type(e).__name__))
            return Outcome(
                VIOLATION, events, sig=exc_sig("C28/unexpected-exception", e),
                detail="read_codec_features_csv raised %s (not InvalidCodecFeaturesError) after faults %r on %s:\n%s" % (type(e).__name__, case["faults"], case["base"], short_tb(e)),
                stats=stats, nontrivial=changed, key="%s|%s|crash" % (case["base"], kinds), ticks=ticks,
            )
        if exc is not None:
            events.append(("invalid", str(exc)[:80]))
            stats["outcome:explained"] += 1
            if not str(exc).strip():
                return Outcome(VIOLATION, events, sig="C28/empty-explanation", detail="InvalidCodecFeaturesError without a message", stats=stats, nontrivial=changed, key="%s|%s|invalid" % (case["base"], kinds), ticks=ticks)
            return Outcome(OK, events, stats=stats, nontrivial=changed, key="%s|%s|invalid" % (case["base"], kinds), ticks=ticks)
        events.append(("returned", list(out) if isinstance(out, dict) else type(out).__name__))
        # every column the file defines must come back (names are unique, so
        # none may silently replace another): count the defined columns with
        # the harness's own reading of the documented layout
        ncols = defined_columns(text)
        if isinstance(out, dict) and ncols is not None and len(out) != ncols:
            return Outcome(VIOLATION, events, sig="C28/column-lost", detail="the file defines %d configurations but %d were returned (names %r) — a duplicate name replaced a column without InvalidCodecFeaturesError (faults %r on %s)" % (ncols, len(out), list(out), case["faults"], case["base"]), stats=stats, nontrivial=changed, key="%s|%s|lost" % (case["base"], kinds), ticks=ticks)
        stats["outcome:returned"] += 1
        key = "%s|%s|returned%d" % (case["base"], kinds, len(out) if hasattr(out, "__len__") else -1)
        problem = domain_problem(out)
        if problem:
            return Outcome(VIOLATION, events, sig="C28/out-of-domain/%s" % problem[0], detail="returned configuration outside its documented domain: %s (faults %r on %s)" % (problem[1], case["faults"], case["base"]), stats=stats, nontrivial=changed, key=key, ticks=ticks)
        stats["columns_returned"] += len(out)
        return Outcome(OK, events, stats=stats, nontrivial=changed, key=key, ticks=ticks)

    def extra_evidence(self, merged):
        st = merged["stats"]
        return {"faults_injected": {k[6:]: v for k, v in st.items() if k.startswith("fault:")}, "outcomes": {k[8:]: v for k, v in st.items() if k.startswith("outcome:")}}


def defined_columns(text):
    """Number of configuration columns the CSV text defines, by the documented
    layout: rows whose first cell is empty or starts with '#' are ignored; a
    column is defined if any remaining row has a non-blank cell in it."""
    import csv as _csv

    try:
        rows = list(_csv.reader(io.StringIO(text.lstrip("\ufeff"), newline=None)))
    except Exception:  # noqa: BLE001
        return None
    cols = set()
    for row in rows:
        if not row:
            continue
        key = row[0].strip()
        if not key or key.startswith("#"):
            continue
        for i, v in enumerate(row[1:]):
            if v.strip():
                cols.add(i)
    return len(cols)


def _is_int(v):
    return isinstance(v, int) and not isinstance(v, bool)


def domain_problem(out):
    if not isinstance(out, OrderedDict):
        return ("type", "result is a %s" % type(out).__name__)
    for name, cf in out.items():
        if type(cf) is not CodecFeatures:
            return ("type", "entry %r is a %s" % (name, type(cf).__name__))
        if cf.get("name") != name or not isinstance(name, str):
            return ("name", "key %r holds features named %r" % (name, cf.get("name")))
        for k, enum in (("level", Levels), ("profile", Profiles), ("picture_coding_mode", PictureCodingModes), ("wavelet_index", WaveletFilters), ("wavelet_index_ho", WaveletFilters)):
            if not isinstance(cf.get(k), enum):
                return (k, "%s=%r is not a %s member" % (k, cf.get(k), enum.__name__))
        for k, lo in (("dwt_depth", 0), ("dwt_depth_ho", 0), ("slices_x", 1), ("slices_y", 1), ("fragment_slice_count", 0)):
            if not _is_int(cf.get(k)) or cf[k] < lo:
                return (k, "%s=%r below %d or not an int" % (k, cf.get(k), lo))
        if not isinstance(cf.get("lossless"), bool):
            return ("lossless", "lossless=%r" % (cf.get("lossless"),))
        pb = cf.get("picture_bytes", "missing")
        if cf["lossless"]:
            if pb is not None:
                return ("picture_bytes", "lossless but picture_bytes=%r" % (pb,))
        elif not _is_int(pb) or pb < 1:
            return ("picture_bytes", "lossy but picture_bytes=%r" % (pb,))
        vp = cf.get("video_parameters")
        if vp is None:
            return ("video_parameters", "missing")
        for k, enum in (("color_diff_format_index", ColorDifferenceSamplingFormats), ("source_sampling", SourceSamplingModes), ("color_primaries_index", PresetColorPrimaries), ("color_matrix_index", PresetColorMatrices), ("transfer_function_index", PresetTransferFunctions)):
            if not isinstance(vp.get(k), enum):
                return (k, "%s=%r is not a %s member" % (k, vp.get(k), enum.__name__))
        for k, lo in (("frame_width", 1), ("frame_height", 1), ("frame_rate_numer", 1), ("frame_rate_denom", 1), ("pixel_aspect_ratio_numer", 1), ("pixel_aspect_ratio_denom", 1),
                      ("clean_width", 0), ("clean_height", 0), ("left_offset", 0), ("top_offset", 0), ("luma_offset", 0), ("luma_excursion", 1), ("color_diff_offset", 0), ("color_diff_excursion", 1)):
            if not _is_int(vp.get(k)) or vp[k] < lo:
                return (k, "%s=%r below %d or not an int" % (k, vp.get(k), lo))
        if not isinstance(vp.get("top_field_first"), bool):
            return ("top_field_first", "top_field_first=%r" % (vp.get("top_field_first"),))
        qm = cf.get("quantization_matrix", "missing")
        if qm is not None:
            d, dh = cf["dwt_depth"], cf["dwt_depth_ho"]
            want = {0: {"LL"} if dh == 0 else {"L"}}
            for lvl in range(1, dh + 1):
                want[lvl] = {"H"}
            for lvl in range(dh + 1, dh + d + 1):
                want[lvl] = {"HL", "LH", "HH"}
            if not isinstance(qm, dict) or set(qm) != set(want) or any(set(qm[l]) != want[l] for l in want) or any(not _is_int(v) for l in qm for v in qm[l].values()):
                return ("quantization_matrix", "matrix %r not shaped for dwt_depth=%d dwt_depth_ho=%d" % (qm, d, dh))
    return None


register(C28())
