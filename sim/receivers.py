"""The receivers of simulation A/B — real repository code run on SimFiles —
plus the in-process scope guard and state taps (DESIGN.md section 4).

Nothing in /repo is edited: the guard and the taps are installed by rebinding
names *in the harness process only*.
"""

import io
from textwrap import dedent

from sim.core import ensure_repo, SimFile, OutOfScope, HarnessError, StepBudgetExceeded, check_seam_gap

ensure_repo()

from vc2_conformance.pseudocode.state import State  # noqa: E402
from vc2_conformance import decoder  # noqa: E402
from vc2_conformance.decoder import ConformanceError  # noqa: E402
import sys as _sys  # noqa: E402

# NB: ``vc2_conformance.decoder`` re-exports functions whose names shadow its
# submodules (e.g. ``sequence_header``), so fetch the modules from sys.modules.
dec_stream = _sys.modules["vc2_conformance.decoder.stream"]
dec_seqhdr = _sys.modules["vc2_conformance.decoder.sequence_header"]
dec_pic = _sys.modules["vc2_conformance.decoder.picture_syntax"]
dec_td = _sys.modules["vc2_conformance.decoder.transform_data_syntax"]
dec_assert = _sys.modules["vc2_conformance.decoder.assertions"]
dec_frag = _sys.modules["vc2_conformance.decoder.fragment_syntax"]
from vc2_conformance.string_utils import wrap_paragraphs  # noqa: E402
from vc2_conformance.bitstream import (  # noqa: E402
    BitstreamReader,
    BitstreamWriter,
    Deserialiser,
    MonitoredDeserialiser,
    Serialiser,
    to_bit_offset,
)
bs_vc2 = _sys.modules["vc2_conformance.bitstream.vc2"]

# --------------------------------------------------------------------------
# Scope guard (the property's "modest bounds")
# --------------------------------------------------------------------------

BOUNDS = {
    "frame_width": 1 << 15,
    "frame_height": 1 << 15,
    "dwt_depth": 4,
    "dwt_depth_ho": 4,
    "slices_x": 16,
    "slices_y": 16,
    "luma_offset": 1 << 72,
    "luma_excursion": 1 << 72,
    "color_diff_offset": 1 << 72,
    "color_diff_excursion": 1 << 72,
}
# total padded-picture work bound: (w padded) * (h padded) must stay small
MAX_SIGNAL_RANGE_PRESET_OK = True


ALLOW_BASE_FORMATS = [False]  # set only by the real-level arm of C01 (QSIF-sized pictures)


# the picture-size bound is on the AREA (luma samples per frame), so that very
# wide or very tall thin pictures stay in scope
MAX_AREA = 1 << 15
_last_width = [0]


def scope_check(key, value):
    lim = BOUNDS.get(key)
    if lim is not None and isinstance(value, int) and value > lim:
        raise OutOfScope("%s=%r above bound %d" % (key, value, lim))
    if key == "frame_width" and isinstance(value, int):
        _last_width[0] = value
    elif key == "frame_height" and isinstance(value, int) and _last_width[0] * value > MAX_AREA:
        raise OutOfScope("frame of %d x %d luma samples above the area bound %d" % (_last_width[0], value, MAX_AREA))
    if key == "custom_dimensions_flag" and value is False and not ALLOW_BASE_FORMATS[0]:
        # every base video format is at least 176x120
        raise OutOfScope("base-format-sized picture")


_real_assert_level_constraint = dec_assert.assert_level_constraint


def _guarded_assert_level_constraint(state, key, value):
    scope_check(key, value)
    return _real_assert_level_constraint(state, key, value)


def install_scope_guard():
    for mod in (dec_seqhdr, dec_pic, dec_td):
        if getattr(mod, "assert_level_constraint", None) is not _guarded_assert_level_constraint:
            assert mod.assert_level_constraint is _real_assert_level_constraint, "unexpected binding in %s" % mod.__name__
            mod.assert_level_constraint = _guarded_assert_level_constraint


install_scope_guard()


# --------------------------------------------------------------------------
# Level value table: real, or (simulation B only) a permissive stub
# --------------------------------------------------------------------------

from vc2_conformance.level_constraints import LEVEL_CONSTRAINTS as _LEVEL_CONSTRAINTS  # noqa: E402
from vc2_conformance.constraint_table import AnyValue as _AnyValue  # noqa: E402

_REAL_LEVEL_ROWS = list(_LEVEL_CONSTRAINTS)
_LEVEL_MODE = ["real"]


def use_permissive_levels():
    """Replace the level *value* table (LEVEL_CONSTRAINTS) in this process by
    one row per level that fixes the level number and permits every other value,
    so that tiny pictures can carry any level number while a value recorded for
    one level still conflicts with another level (as in the real table).
    LEVEL_SEQUENCE_RESTRICTIONS — the data-unit ordering patterns — stays the
    real table.  Recorded as a stub in the evidence of the checks that use it."""
    if _LEVEL_MODE[0] != "permissive":
        from vc2_conformance.constraint_table import ValueSet
        from vc2_data_tables import Levels

        keys = set()
        for row in _REAL_LEVEL_ROWS:
            keys.update(row.keys())
        del _LEVEL_CONSTRAINTS[:]
        for lvl in Levels:
            row = {k: _AnyValue() for k in sorted(keys)}
            row["level"] = ValueSet(int(lvl))
            _LEVEL_CONSTRAINTS.append(row)
        _LEVEL_MODE[0] = "permissive"


import contextlib as _contextlib  # noqa: E402


@_contextlib.contextmanager
def level_mode(real):
    """Temporarily select the real or the stub level value table."""
    before = _LEVEL_MODE[0]
    (use_real_levels if real else use_permissive_levels)()
    try:
        yield
    finally:
        (use_real_levels if before == "real" else use_permissive_levels)()


def use_real_levels():
    if _LEVEL_MODE[0] != "real":
        del _LEVEL_CONSTRAINTS[:]
        _LEVEL_CONSTRAINTS.extend(_REAL_LEVEL_ROWS)
        _LEVEL_MODE[0] = "real"


# --------------------------------------------------------------------------
# Taps on the validator (capture what it read)
# --------------------------------------------------------------------------


class Tap(object):
    """Records, while active, what the validator's sequence_header returned and
    the transform data at each picture_decode call."""

    def __init__(self):
        self.active = False
        self.reset()

    def reset(self):
        self.headers = []
        self.decodes = []
        self.unit_codes = []


TAP = Tap()

_real_sequence_header = dec_stream.sequence_header
_real_picture_decode = dec_stream.picture_decode
_real_parse_info = dec_stream.parse_info


def _copy_transform(t):
    return {lvl: {o: [list(r) for r in a] for o, a in bands.items()} for lvl, bands in t.items()}


def _tapped_sequence_header(state):
    vp = _real_sequence_header(state)
    if TAP.active:
        TAP.headers.append(
            {
                "video_parameters": dict(vp),
                "picture_coding_mode": state["picture_coding_mode"],
                "major_version": state["major_version"],
                "minor_version": state["minor_version"],
                "profile": state["profile"],
                "level": state["level"],
            }
        )
    return vp


_TP_KEYS = (
    "wavelet_index",
    "wavelet_index_ho",
    "dwt_depth",
    "dwt_depth_ho",
    "slices_x",
    "slices_y",
    "slice_bytes_numerator",
    "slice_bytes_denominator",
    "slice_prefix_bytes",
    "slice_size_scaler",
    "picture_number",
    "parse_code",
)


def _tapped_picture_decode(state):
    if TAP.active:
        TAP.decodes.append(
            {
                "params": {k: state[k] for k in _TP_KEYS if k in state},
                "quant_matrix": {l: dict(o) for l, o in state["quant_matrix"].items()},
                "y": _copy_transform(state["y_transform"]),
                "c1": _copy_transform(state["c1_transform"]),
                "c2": _copy_transform(state["c2_transform"]),
            }
        )
    return _real_picture_decode(state)


def _tapped_parse_info(state):
    _real_parse_info(state)
    if TAP.active:
        TAP.unit_codes.append((state["_last_parse_info_offset"], state["parse_code"], state["next_parse_offset"], state["previous_parse_offset"]))


_real_bs_sequence_header = bs_vc2.sequence_header
DESER_HEADERS = []


def _tapped_bs_sequence_header(serdes, state):
    """Tap on the *deserialiser's* sequence_header: records the decoded video
    parameters it returns (the Sequence's ``_state`` is one shared object for
    all sequences of a stream, so it cannot be used for this)."""
    vp = _real_bs_sequence_header(serdes, state)
    DESER_HEADERS.append((dict(vp), state["picture_coding_mode"]))
    return vp


def install_taps():
    if bs_vc2.sequence_header is not _tapped_bs_sequence_header:
        bs_vc2.sequence_header = _tapped_bs_sequence_header
    if dec_stream.sequence_header is not _tapped_sequence_header:
        dec_stream.sequence_header = _tapped_sequence_header
        dec_stream.picture_decode = _tapped_picture_decode
        dec_stream.parse_info = _tapped_parse_info


install_taps()


# --------------------------------------------------------------------------
# Receiver 1: the validating decoder
# --------------------------------------------------------------------------


class _Collector(list):
    """A callable collection: ``collector(picture, video_parameters, mode)``."""

    def __call__(self, p, vp, pcm):
        self.append((p, dict(vp), pcm))


class ValidatorResult(object):
    __slots__ = ("verdict", "exc", "pics", "reads", "tell", "headers", "decodes", "unit_codes", "explain_failure", "tell_bits")


def check_reportable(exc, filename="stream.vc2", tell_bits=0, salt=0):
    """Do with a ConformanceError what the validator command does with it —
    explain it, print it, locate it, turn it into a viewer hint — in an ORDER
    chosen by ``salt`` (each of the four must work on a freshly raised error,
    whichever is asked first); returns None or the exception that doing so
    raised."""
    import itertools

    order = list(itertools.permutations(("explain", "str", "offset", "hint")))[salt % 24]
    got = {}
    try:
        for what in order:
            if what == "explain":
                got["text"] = wrap_paragraphs(exc.explain())
            elif what == "str":
                str(exc)
            elif what == "offset":
                off = exc.offending_offset()
                if off is not None:
                    if not isinstance(off, int) or isinstance(off, bool) or off < 0:
                        raise HarnessError("offending_offset() returned %r" % (off,))
                else:
                    off = tell_bits
                got["off"] = off
            else:
                got["hint_template"] = dedent(exc.bitstream_viewer_hint()).strip()
        summary, _, details = got["text"].partition("\n")
        title = "Conformance error at bit offset {}".format(got["off"])
        hint = got["hint_template"].format(cmd="vc2-bitstream-viewer", file=filename, offset=got["off"])
        wrap_paragraphs(summary, 80)
        wrap_paragraphs(details, 80)
        if not isinstance(hint, str) or not title:
            raise HarnessError("hint is not text")
        if not summary.strip():
            raise HarnessError("empty explanation")
    except Exception as e:  # noqa: BLE001 — anything failing here is the finding
        return e
    return None


def run_validator(data, tap=False):
    """Feed bytes to the real validating decoder.  verdict in
    accept / reject / crash / oos."""
    res = ValidatorResult()
    res.pics = []
    res.explain_failure = None
    res.tell_bits = None
    f = SimFile(data)
    # the validator reads every byte once, strictly in order
    f.read_budget = 4 * len(data) + 256
    # the output callback is "any callable": half of the runs hand over a plain
    # function, the others a callable collection object (which is falsy while
    # it is empty)
    if len(data) % 2:
        state = State(_output_picture_callback=lambda p, vp, pcm: res.pics.append((p, dict(vp), pcm)))
    else:
        res.pics = _Collector()
        state = State(_output_picture_callback=res.pics)
    TAP.reset()
    TAP.active = tap
    try:
        try:
            decoder.init_io(state, f)
            decoder.parse_stream(state)
            res.verdict, res.exc = "accept", None
        except ConformanceError as e:
            res.verdict, res.exc = "reject", e
            try:
                tb = to_bit_offset(*decoder.tell(state))
            except Exception:
                tb = 0
            res.tell_bits = tb
            res.explain_failure = check_reportable(e, tell_bits=tb, salt=(len(data) * 7 + (data[-1] if data else 0)))
        except OutOfScope as e:
            res.verdict, res.exc = "oos", e
        except StepBudgetExceeded as e:
            res.verdict, res.exc = "hang", e
        except Exception as e:  # noqa: BLE001
            check_seam_gap(e)
            res.verdict, res.exc = "crash", e
    finally:
        TAP.active = False
    res.reads = f.reads
    res.tell = f.tell()
    res.headers, res.decodes, res.unit_codes = TAP.headers, TAP.decodes, TAP.unit_codes
    return res


# --------------------------------------------------------------------------
# Receiver 2: the bitstream deserialiser (with the same scope bounds applied
# by a monitor), and the serialiser round trip
# --------------------------------------------------------------------------


def _scope_monitor(des, target, value):
    if target in BOUNDS or target == "custom_dimensions_flag":
        scope_check(target, value)


class DeserResult(object):
    __slots__ = ("verdict", "exc", "context", "reads", "consumed_bits", "headers")


def run_deserialiser(data, reread=False):
    """verdict in parsed / fail / oos.  'parsed' means parsed to completion.

    With ``reread`` the deserialiser is driven the way the bitstream viewer
    drives it: after every value the monitor seeks back to where the value
    started and reads its bits again as a bit array."""
    res = DeserResult()
    f = SimFile(data)
    f.read_budget = 64 * len(data) + 4096
    reader = BitstreamReader(f)
    res.context = None
    del DESER_HEADERS[:]
    monitor = _scope_monitor
    if reread:
        last = [reader.tell()]

        def monitor(des, target, value):
            _scope_monitor(des, target, value)
            # every re-read costs a seek (one read call) even for a value of
            # zero width (coefficients past a block end): the budget grows with
            # the number of values, not only with the file length
            f.read_budget += 8
            this = reader.tell()
            n = to_bit_offset(*this) - to_bit_offset(*last[0])
            reader.seek(*last[0])
            reader.read_bitarray(n)
            last[0] = this

    try:
        with MonitoredDeserialiser(monitor, reader) as des:
            bs_vc2.parse_stream(des, State())
        res.context = des.context
        res.verdict, res.exc = "parsed", None
    except OutOfScope as e:
        res.verdict, res.exc = "oos", e
    except StepBudgetExceeded as e:
        res.verdict, res.exc = "hang", e
    except Exception as e:  # noqa: BLE001
        check_seam_gap(e)
        res.verdict, res.exc = "fail", e
    res.reads = f.reads
    res.headers = list(DESER_HEADERS)
    try:
        res.consumed_bits = to_bit_offset(*reader.tell())
    except Exception:
        res.consumed_bits = None
    return res


def run_two_open_deserialisers(data_a, data_b):
    """Two readers are opened (on two simulated files) before either stream is
    parsed; then A is parsed to completion, then B.  Returns the two contexts
    (None where parsing failed).  Instances must be independent: each result has
    to equal what parsing that stream on its own gives."""
    fa, fb = SimFile(data_a), SimFile(data_b)
    fa.read_budget = 64 * len(data_a) + 4096
    fb.read_budget = 64 * len(data_b) + 4096
    rb = BitstreamReader(fb)
    ra = BitstreamReader(fa)
    out = []
    for rd in (ra, rb):
        try:
            with MonitoredDeserialiser(_scope_monitor, rd) as des:
                bs_vc2.parse_stream(des, State())
            out.append(des.context)
        except (Exception, OutOfScope, StepBudgetExceeded) as e:  # noqa: BLE001
            if isinstance(e, Exception):
                check_seam_gap(e)
            out.append(None)
    return out


def run_serialiser(context):
    """Serialise a description with the real Serialiser; returns (bytes, exc)."""
    g = SimFile()
    writer = BitstreamWriter(g)
    try:
        with Serialiser(writer, context) as ser:
            bs_vc2.parse_stream(ser, State())
        writer.flush()
    except OutOfScope:
        raise
    except Exception as e:  # noqa: BLE001
        check_seam_gap(e)
        return None, e
    return g.getvalue(), None


def run_plain_deserialiser(data):
    f = SimFile(data)
    reader = BitstreamReader(f)
    try:
        with Deserialiser(reader) as des:
            bs_vc2.parse_stream(des, State())
        return des.context, None
    except Exception as e:  # noqa: BLE001
        return None, e
