"""Workloads: seeded small codec configurations, pictures and the real
encoder/serialiser as the *sender* of simulations A and B.

A configuration is a plain JSON-able dict so that it can live in a replay file.
"""

import random
from collections import OrderedDict

from sim.core import ensure_repo, SimFile, derive_seed

ensure_repo()

from vc2_data_tables import (  # noqa: E402
    Profiles,
    Levels,
    PictureCodingModes,
    WaveletFilters,
    ColorDifferenceSamplingFormats,
    BaseVideoFormats,
    SourceSamplingModes,
    QUANTISATION_MATRICES,
)
from vc2_conformance.codec_features import CodecFeatures  # noqa: E402
from vc2_conformance.pseudocode.video_parameters import set_source_defaults  # noqa: E402
from vc2_conformance.encoder import make_sequence  # noqa: E402
from vc2_conformance.encoder.exceptions import UnsatisfiableCodecFeaturesError  # noqa: E402
from vc2_conformance.bitstream import (  # noqa: E402
    Stream,
    DataUnit,
    ParseInfo,
    Padding,
    AuxiliaryData,
    autofill_and_serialise_stream,
)
from vc2_data_tables import ParseCodes  # noqa: E402

HSUB = {0: 1, 1: 2, 2: 2}
VSUB = {0: 1, 1: 1, 2: 2}


def intlog2(n):
    return (n - 1).bit_length()


def random_config(rng, max_w=16, max_h=8):
    """Draw a small configuration.  Not guaranteed encodable; callers use
    ``try_encode``."""
    profile = rng.choice([3, 3, 3, 0])
    cdf = rng.choice([0, 0, 1, 2])
    pcm = rng.choice([0, 0, 0, 1])
    hs, vs = HSUB[cdf], VSUB[cdf]
    wq = hs
    hq = vs * (2 if pcm == 1 else 1)
    w = rng.choice([1, 2, 3, 4, 6, 8, 8, 12, 16]) * wq
    h = rng.choice([1, 2, 2, 3, 4, 4, 8]) * hq
    w = min(w, max_w - max_w % wq)
    h = min(h, max_h - max_h % hq) or hq
    w = max(w, wq)
    h = max(h, hq)
    asym = rng.random() < 0.25
    wavelet = rng.randrange(7)
    if asym:
        wavelet_ho = rng.randrange(7)
        depth = rng.choice([0, 1, 1, 2])
        depth_ho = rng.choice([1, 1, 2, 0])
        if depth_ho == 0:
            depth = rng.choice([1, 2, 3])
            if rng.random() < 0.5:
                # the one asymmetric pair with default quantisation matrices
                wavelet, wavelet_ho = 3, 1
    else:
        wavelet_ho = wavelet
        depth = rng.choice([0, 1, 1, 2, 2, 3])
        depth_ho = 0
    sx = rng.choice([1, 1, 2, 2, 3, 4])
    sy = rng.choice([1, 1, 2, 3])
    frag = rng.choice([0, 0, 0, 1, 2, 3, sx * sy, sx * sy + 1])
    lossless = profile == 3 and rng.random() < 0.3
    depth_bits = rng.choice([1, 2, 8, 8, 8, 10, 12, 16, 16, 20, 24, 29, 31, 32, 39, 33, 48, 63, 64, 65, 70])

    def _exc(bits):
        r = rng.random()
        if r < 0.6:
            return (1 << bits) - 1
        if r < 0.75:
            return 1 << (bits - 1)  # an exact power of two (needs ``bits`` bits)
        return rng.randrange(1, 1 << bits)

    luma_exc = _exc(depth_bits)
    cbits = rng.choice([depth_bits, depth_bits, 8, 4, 64])
    cd_exc = _exc(cbits)
    cfg = OrderedDict(
        profile=profile,
        level=0,
        pcm=pcm,
        w=w,
        h=h,
        cdf=cdf,
        luma_exc=luma_exc,
        luma_off=rng.choice([0, 0, 1, luma_exc // 16]),
        cd_exc=cd_exc,
        cd_off=rng.choice([0, (cd_exc + 1) // 2]),
        wavelet=wavelet,
        wavelet_ho=wavelet_ho,
        depth=depth,
        depth_ho=depth_ho,
        sx=sx,
        sy=sy,
        frag=frag,
        lossless=lossless,
        picture_bytes=None,
        qm=None,
        npics=rng.choice([1, 1, 2, 3]),
        pic_kind=rng.choice(["noise", "noise", "noise", "zero", "max", "const", "mid"]),
        pic_seed=rng.randrange(1 << 30),
        first_pic_num=rng.choice([None, 0, 0, 2, 1000, (1 << 32) - 2, (1 << 32) - 1]),
        nseq=rng.choice([1, 1, 1, 2]),
    )
    # colour specification (some presets need major_version 3)
    cfg["color"] = [rng.randrange(5), rng.randrange(5), rng.randrange(6)] if rng.random() < 0.25 else None
    if rng.random() < 0.3:
        cfg["extras"] = [
            [rng.randrange(1, 6), rng.choice(["pad", "aux"]), rng.choice([0, 0, 1, 2, 5, 13, 20]), rng.randrange(256)]
            for _ in range(rng.choice([1, 1, 2, 3]))
        ]
        if rng.random() < 0.12:
            # a payload longer than the usual I/O buffer sizes (4 KiB, 8 KiB):
            # whatever a reader buffers, a value then straddles a refill
            if rng.random() < 0.5:
                cfg["extras"][-1][2] = rng.choice([4083, 4096, 4097, 4200, 8179, 8192, 8300, 4200, 8300, 65300, 65536, 66000])
            else:
                # ... or a medium-sized value (hundreds of bytes to 2 KiB)
                # straddling a 4 KiB / 8 KiB / 64 KiB offset, starting a few
                # hundred bytes before it: a first unit brings the stream to just
                # short of the boundary, the second one crosses it
                bnd = rng.choice([4096, 8192, 8192, 65536, 65536])
                short = rng.randrange(257, 1500)
                cfg["extras"] = [
                    [1, rng.choice(["pad", "aux"]), bnd - short - 80, rng.randrange(256)],
                    [2, rng.choice(["pad", "aux"]), rng.choice([400, 900, 2000]), rng.randrange(256)],
                ]
    else:
        cfg["extras"] = None
    if rng.random() < (0.45 if asym and depth_ho > 0 else 0.3):
        # mixed-geometry sequence: further pictures coded with other transform
        # parameters / slice counts / fragmentation (legal: they are per picture)
        m_asym = rng.random() < 0.25
        m_w = rng.randrange(7)
        cfg["mix"] = {
            "wavelet": m_w,
            "wavelet_ho": rng.randrange(7) if m_asym else m_w,
            "depth": rng.choice([0, 1, 2]) if m_asym else rng.choice([0, 1, 2, 3]),
            "depth_ho": rng.choice([1, 2]) if m_asym else 0,
            "sx": rng.choice([1, 2, 3]),
            "sy": rng.choice([1, 2]),
            "frag": rng.choice([0, 0, 1, 2]),
            "qm": None,
        }
        if rng.random() < (0.6 if asym and depth_ho > 0 else 0.35):
            # near-twin pictures: the same TOTAL transform depth split
            # differently between 2-D and horizontal-only levels (same number
            # of levels and DC band shape, other subband shapes), optionally the
            # same slice grid
            total = depth + depth_ho
            splits = [(d, total - d) for d in range(0, total + 1) if (d, total - d) != (depth, depth_ho) and d <= 3 and total - d <= 2]
            same_dc = [sp for sp in splits if (sp[1] > 0) == (depth_ho > 0)]
            if same_dc and rng.random() < 0.7:
                splits = same_dc  # ... and the same DC band kind (L vs LL)
            if splits:
                cfg["mix"]["depth"], cfg["mix"]["depth_ho"] = rng.choice(splits)
                cfg["mix"]["wavelet"] = wavelet
                cfg["mix"]["wavelet_ho"] = wavelet_ho if rng.random() < 0.5 else rng.randrange(7)
                if rng.random() < 0.5:
                    cfg["mix"]["sx"], cfg["mix"]["sy"] = sx, sy
                cfg["npics"] = max(2, cfg["npics"])
                if rng.random() < 0.5:
                    # degenerate sizes: components lower than 2^depth (every
                    # subband one row high after padding)
                    cfg["h"] = hq * rng.choice([1, 1, 2])
        need = (WaveletFilters(cfg["mix"]["wavelet"]), WaveletFilters(cfg["mix"]["wavelet_ho"]), cfg["mix"]["depth"], cfg["mix"]["depth_ho"]) not in QUANTISATION_MATRICES
        if need:
            cfg["mix"]["qm"] = [rng.choice([0, 1, 2, 3]) for _ in range(qm_length(cfg["mix"]["depth"], cfg["mix"]["depth_ho"]))]
        if rng.random() < 0.4 and pcm == 0:
            # A, B, A': a third group of pictures coded with the main
            # parameters except for one of them
            which = rng.choice(["depth_ho", "depth_ho", "wavelet_ho", "sx", "sy", "depth"])
            m3 = {}
            if which == "depth_ho":
                m3["depth_ho"] = depth_ho + 1 if depth_ho < 2 else depth_ho - 1
            elif which == "wavelet_ho":
                m3["wavelet_ho"] = (wavelet_ho + 1) % 7
            elif which == "depth":
                m3["depth"] = depth + 1 if depth < 3 else depth - 1
            else:
                m3[which] = (sx if which == "sx" else sy) % 3 + 1
            d3 = dict(depth=depth, depth_ho=depth_ho, wavelet=wavelet, wavelet_ho=wavelet_ho)
            d3.update({k: v for k, v in m3.items() if k in d3})
            if (WaveletFilters(d3["wavelet"]), WaveletFilters(d3["wavelet_ho"]), d3["depth"], d3["depth_ho"]) not in QUANTISATION_MATRICES:
                m3["qm"] = [rng.choice([0, 1, 2, 3]) for _ in range(qm_length(d3["depth"], d3["depth_ho"]))]
            cfg["mix3"] = m3
            cfg["npics"] = max(3, cfg["npics"])
    else:
        cfg["mix"] = None
    if pcm == 1:
        # whole number of frames; first field of a frame has an even number
        cfg["npics"] = 2 * rng.choice([1, 1, 2])
        if cfg["first_pic_num"] is not None and cfg["first_pic_num"] % 2:
            cfg["first_pic_num"] -= 1
    nslices = sx * sy
    if not lossless:
        # Very roughly size the pictures
        ncoef = w * h * 3
        if profile == 3:
            cfg["picture_bytes"] = 4 * nslices + rng.choice([0, 1, nslices, ncoef // 4 + 1, ncoef, 2 * ncoef * depth_bits // 8 + 8])
        else:
            cfg["picture_bytes"] = rng.choice([nslices, 2 * nslices, 3 * nslices + 1, ncoef // 4 + nslices, ncoef + nslices, 2 * ncoef + nslices])
    need_qm = (WaveletFilters(wavelet), WaveletFilters(wavelet_ho), depth, depth_ho) not in QUANTISATION_MATRICES
    if need_qm or rng.random() < 0.15:
        cfg["qm"] = [rng.choice([0, 0, 1, 2, 3, 4, 7]) for _ in range(qm_length(depth, depth_ho))]
    return cfg


def qm_length(depth, depth_ho):
    return 1 + depth_ho + 3 * depth


def qm_to_dict(values, depth, depth_ho):
    it = iter(values)
    out = {}
    if depth_ho == 0:
        out[0] = {"LL": next(it)}
    else:
        out[0] = {"L": next(it)}
        for lvl in range(1, depth_ho + 1):
            out[lvl] = {"H": next(it)}
    for lvl in range(depth_ho + 1, depth_ho + depth + 1):
        out[lvl] = {"HL": next(it), "LH": next(it), "HH": next(it)}
    return out


def build_codec_features(cfg):
    if cfg.get("base"):
        # a real base video format, untouched (for the real level tables)
        vp = set_source_defaults(BaseVideoFormats[cfg["base"]])
        return _codec_features(cfg, vp)
    vp = set_source_defaults(BaseVideoFormats.hd1080p_50)
    vp["frame_width"] = cfg["w"]
    vp["frame_height"] = cfg["h"]
    vp["clean_width"] = cfg["w"]
    vp["clean_height"] = cfg["h"]
    vp["left_offset"] = 0
    vp["top_offset"] = 0
    vp["color_diff_format_index"] = ColorDifferenceSamplingFormats(cfg["cdf"])
    vp["source_sampling"] = SourceSamplingModes(cfg.get("source_sampling", 0))
    vp["luma_offset"] = cfg["luma_off"]
    vp["luma_excursion"] = cfg["luma_exc"]
    vp["color_diff_offset"] = cfg["cd_off"]
    vp["color_diff_excursion"] = cfg["cd_exc"]
    vp["frame_rate_numer"] = 1
    vp["frame_rate_denom"] = 1
    col = cfg.get("color")
    if col:
        from vc2_data_tables import PresetColorPrimaries, PresetColorMatrices, PresetTransferFunctions

        vp["color_primaries_index"] = PresetColorPrimaries(col[0])
        vp["color_matrix_index"] = PresetColorMatrices(col[1])
        vp["transfer_function_index"] = PresetTransferFunctions(col[2])
    return _codec_features(cfg, vp)


def _codec_features(cfg, vp):
    return CodecFeatures(
        name="sim",
        level=Levels(cfg["level"]),
        profile=Profiles(cfg["profile"]),
        picture_coding_mode=PictureCodingModes(cfg["pcm"]),
        video_parameters=vp,
        wavelet_index=WaveletFilters(cfg["wavelet"]),
        wavelet_index_ho=WaveletFilters(cfg["wavelet_ho"]),
        dwt_depth=cfg["depth"],
        dwt_depth_ho=cfg["depth_ho"],
        slices_x=cfg["sx"],
        slices_y=cfg["sy"],
        fragment_slice_count=cfg["frag"],
        lossless=cfg["lossless"],
        picture_bytes=cfg["picture_bytes"],
        quantization_matrix=(qm_to_dict(cfg["qm"], cfg["depth"], cfg["depth_ho"]) if cfg["qm"] is not None else None),
    )


def component_dims(cfg):
    """Independent (harness-side) computation of the coded picture component
    sizes and depths from the header values (11.6.2/11.6.3)."""
    lw, lh = cfg["w"], cfg["h"]
    cw, ch = lw // HSUB[cfg["cdf"]], lh // VSUB[cfg["cdf"]]
    if cfg["pcm"] == 1:
        lh //= 2
        ch //= 2
    ld = intlog2(cfg["luma_exc"] + 1)
    cd = intlog2(cfg["cd_exc"] + 1)
    return {"Y": (lw, lh, ld), "C1": (cw, ch, cd), "C2": (cw, ch, cd)}


def make_pictures(cfg, seq_index=0):
    rng = random.Random(derive_seed(cfg["pic_seed"], "pics", cfg["pic_kind"], seq_index))
    dims = component_dims(cfg)
    pics = []
    for n in range(cfg["npics"]):
        pic = {}
        for comp, (w, h, d) in dims.items():
            top = (1 << d) - 1
            kind = cfg["pic_kind"]
            if kind == "noise":
                rows = [[rng.randint(0, top) for _ in range(w)] for _ in range(h)]
            elif kind == "zero":
                rows = [[0] * w for _ in range(h)]
            elif kind == "max":
                rows = [[top] * w for _ in range(h)]
            elif kind == "mid":
                # exact mid-grey: every transform coefficient is zero whatever
                # the depth, wavelet or slice layout
                rows = [[(1 << d) >> 1] * w for _ in range(h)]
            else:
                v = rng.randint(0, top)
                rows = [[v] * w for _ in range(h)]
            pic[comp] = rows
        if cfg["first_pic_num"] is not None:
            pic["pic_num"] = (cfg["first_pic_num"] + n) & 0xFFFFFFFF
        pics.append(pic)
    return pics


class WorkloadError(Exception):
    """The sender (encoder/serialiser) refused or failed on this configuration
    — a PRECONDITION failure, never attributed to a claimed property."""


def encode_sequences(cfg):
    cf = build_codec_features(cfg)
    seqs = []
    mix = cfg.get("mix")
    cf2 = None
    if mix:
        c2 = dict(cfg)
        c2.update(mix)
        if not cfg["lossless"]:
            # keep the budget generous enough for the other slice count
            c2["picture_bytes"] = max(cfg["picture_bytes"], 4 * mix["sx"] * mix["sy"] + cfg["picture_bytes"])
        cf2 = build_codec_features(c2)
    cf3 = None
    if mix and cfg.get("mix3"):
        # a third geometry: the MAIN parameters with one thing changed (A, B, A')
        c3 = dict(cfg)
        c3.update(cfg["mix3"])
        try:
            cf3 = build_codec_features(c3)
        except Exception:  # noqa: BLE001 — not encodable: two geometries only
            cf3 = None
    for s in range(cfg.get("nseq", 1)):
        pics = make_pictures(cfg, s)
        if cf2 is not None and cf3 is not None and len(pics) >= 3 and cfg["pcm"] == 0:
            k1 = len(pics) // 3
            k2 = 2 * len(pics) // 3
            seq = make_sequence(cf, pics[:k1])
            for cfx, part in ((cf2, pics[k1:k2]), (cf3, pics[k2:])):
                other = make_sequence(cfx, part)
                extra = [du for du in other["data_units"] if "picture_parse" in du or "fragment_parse" in du]
                seq["data_units"][-1:-1] = extra
        elif cf2 is not None and len(pics) >= 2:
            # first half coded with the main parameters, second half with the
            # other ones (picture numbers, if explicit, stay consecutive)
            k = len(pics) // 2
            if cfg["pcm"] == 1:
                k -= k % 2
                k = k or 2
            seq = make_sequence(cf, pics[:k])
            other = make_sequence(cf2, pics[k:]) if pics[k:] else None
            if other is not None:
                extra = [du for du in other["data_units"] if "picture_parse" in du or "fragment_parse" in du]
                seq["data_units"][-1:-1] = extra
        else:
            seq = make_sequence(cf, pics)
        for pos, kind, n, fill in cfg.get("extras") or []:
            units = seq["data_units"]
            at = max(1, min(pos, len(units) - 1))
            if n > 100 and fill % 2:
                payload = bytes([fill]) * (n - 1) + bytes([(fill + 1) & 0xFF])
            else:
                payload = bytes((fill + i * 37) & 0xFF for i in range(n))
            if kind == "pad":
                du = DataUnit(parse_info=ParseInfo(parse_code=ParseCodes.padding_data), padding=Padding(bytes=payload))
            else:
                du = DataUnit(parse_info=ParseInfo(parse_code=ParseCodes.auxiliary_data), auxiliary_data=AuxiliaryData(bytes=payload))
            units.insert(at, du)
        seqs.append(seq)
    return seqs


def serialise(seqs):
    f = SimFile()
    autofill_and_serialise_stream(f, Stream(sequences=seqs))
    return f.getvalue()


_CACHE = OrderedDict()
_CACHE_MAX = 4096


def encode_stream(cfg):
    """cfg -> bytes of the clean stream (cached; pure function of cfg)."""
    key = repr(sorted(cfg.items()))
    got = _CACHE.get(key)
    if got is not None:
        if isinstance(got, WorkloadError):
            raise got
        return got
    try:
        data = serialise(encode_sequences(cfg))
    except Exception as e:  # noqa: BLE001 — the sender refused or failed: a precondition, never a verdict
        err = WorkloadError("%s: %s" % (type(e).__name__, e))
        _CACHE[key] = err
        raise err
    _CACHE[key] = data
    while len(_CACHE) > _CACHE_MAX:
        _CACHE.popitem(last=False)
    return data


def draw_encodable_config(rng, tries=30, **kw):
    for _ in range(tries):
        cfg = random_config(rng, **kw)
        try:
            encode_stream(cfg)
            return cfg
        except WorkloadError:
            continue
    return minimal_config()


def qsif_config(profile, frag, wavelet=1, pic_seed=1):
    """QSIF525 (176x120, 4:2:0, 8 bit): admitted by the REAL level 1 table."""
    return OrderedDict(
        base="qsif525", profile=profile, level=1, pcm=0, w=176, h=120, cdf=2, luma_exc=255, luma_off=0, cd_exc=255, cd_off=128,
        wavelet=wavelet, wavelet_ho=wavelet, depth=2, depth_ho=0, sx=2, sy=3, frag=frag, lossless=False,
        picture_bytes=(6 * 60 if profile == 3 else 6 * 40), qm=None, npics=1, pic_kind="noise", pic_seed=pic_seed, first_pic_num=None, nseq=1, extras=None, mix=None, color=None,
    )


def minimal_config():
    return OrderedDict(
        profile=3, level=0, pcm=0, w=8, h=4, cdf=0, luma_exc=255, luma_off=0, cd_exc=255, cd_off=128,
        wavelet=4, wavelet_ho=4, depth=1, depth_ho=0, sx=2, sy=1, frag=0, lossless=False, picture_bytes=24,
        qm=None, npics=1, pic_kind="noise", pic_seed=1, first_pic_num=None, nseq=1, extras=None, mix=None, color=None,
    )


def twin_config(cfg, which):
    """Variant ``which`` of a configuration for the twin-sequence arm."""
    cfg["pic_kind"] = "mid"
    cfg["mix"] = None
    if which == 1:
        cfg["luma_exc"], cfg["cd_exc"] = ((1 << 10) - 1, (1 << 10) - 1) if cfg["luma_exc"] != (1 << 10) - 1 else (255, 255)
        cfg["luma_off"], cfg["cd_off"] = 0, (cfg["cd_exc"] + 1) // 2
    elif which == 2:
        cfg["luma_exc"], cfg["cd_exc"] = (1 << 12) - 1, 255
        cfg["luma_off"], cfg["cd_off"] = 0, 128
    elif which == 3 and not cfg.get("qm"):
        w2 = (cfg["wavelet"] + 1) % 7
        if cfg["wavelet_ho"] == cfg["wavelet"]:
            cfg["wavelet_ho"] = w2
        cfg["wavelet"] = w2
    elif which == 4:
        cfg["color"] = [1, 2, 3] if cfg.get("color") != [1, 2, 3] else None
    elif which == 5:
        cfg["luma_off"] = 16 if cfg["luma_off"] != 16 else 0
    elif which == 6:
        # only the colour-difference range changes (another byte-size class)
        cfg["cd_exc"] = 1023 if cfg["cd_exc"] != 1023 else 255
        cfg["cd_off"] = (cfg["cd_exc"] + 1) // 2
    elif which == 7:
        # standard 8-bit video range (a preset signal range for most base formats)
        cfg["luma_exc"], cfg["luma_off"], cfg["cd_exc"], cfg["cd_off"] = 219, 16, 224, 128
    return cfg




def encode_twinseq(cfg, whichs):
    """One stream made of several sequences: the same configuration with
    mid-grey pictures and one thing changed per sequence (twin_config)."""
    parts = []
    for wh in whichs:
        c = twin_config(dict(cfg, nseq=1, extras=None), wh)
        parts.append(encode_stream(c))
    return b"".join(parts)


_GOLD = {}
import os  # noqa: E402
from sim.core import VERIF  # noqa: E402


def gold_names():
    if "index" not in _GOLD:
        import json

        with open(os.path.join(VERIF, "corpus", "gold", "index.json")) as f:
            _GOLD["index"] = json.load(f)
    return sorted(_GOLD["index"])


def gold_stream(name):
    """Bytes of one item of the frozen corpus (corpus/gold, tools/gen_gold.py)."""
    if name not in gold_names():
        raise WorkloadError("no such corpus item: %r" % (name,))
    if name not in _GOLD:
        with open(os.path.join(VERIF, "corpus", "gold", name + ".vc2"), "rb") as f:
            _GOLD[name] = f.read()
    return _GOLD[name]


def wide_configs():
    """A handful of extreme-aspect configurations (one very long row / one very
    long column, shallow and very deep samples, flat pictures so that streams
    stay small): sizes and counts beyond what the tiny formats reach — a row of
    more than 256 KiB, more than 2^14 rows — within the area bound."""
    out = []
    # (width, height, sample bits, profile, fragment slices, lossless, picture kind)
    for (w, h, bits, profile, frag, lossless, kind) in [
        (16400, 1, 70, 3, 0, True, "mid"), (32000, 1, 40, 3, 0, True, "mid"), (16400, 1, 8, 0, 0, False, "noise"),
        (1, 16400, 65, 3, 0, True, "mid"), (2, 8200, 10, 3, 3, True, "mid"), (20000, 1, 65, 3, 2, True, "mid"),
        (9000, 1, 8, 3, 0, False, "noise"), (2, 4400, 8, 3, 0, False, "noise"),
    ]:
        exc = (1 << bits) - 1
        out.append(OrderedDict(
            profile=profile, level=0, pcm=0, w=w, h=h, cdf=0, luma_exc=exc, luma_off=0, cd_exc=exc, cd_off=(exc + 1) // 2,
            wavelet=4, wavelet_ho=4, depth=1, depth_ho=0, sx=2 if w > 1 else 1, sy=1, frag=frag, lossless=lossless, picture_bytes=(None if lossless else 400),
            qm=None, npics=2, pic_kind=kind, pic_seed=7, first_pic_num=None, nseq=1, extras=None, mix=None, color=None,
        ))
    return out


_POOLS = {}


def config_pool(verif_seed, name, size, **kw):
    """A deterministic pool of encodable configurations derived from
    VERIF_SEED.  Cases carry the configuration itself, so a replay never needs
    the pool."""
    key = (verif_seed, name, size, tuple(sorted(kw.items())))
    pool = _POOLS.get(key)
    if pool is None:
        pool = [None] * size
        _POOLS[key] = pool
    return _LazyPool(pool, verif_seed, name, kw)


class _LazyPool(object):
    def __init__(self, pool, verif_seed, name, kw):
        self.pool, self.verif_seed, self.name, self.kw = pool, verif_seed, name, kw

    def __len__(self):
        return len(self.pool)

    def __getitem__(self, k):
        cfg = self.pool[k]
        if cfg is None:
            rng = random.Random(derive_seed(self.verif_seed, "cfgpool", self.name, k))
            cfg = draw_encodable_config(rng, **self.kw)
            self.pool[k] = cfg
        return cfg


# --------------------------------------------------------------------------
# Streams from the real decoder test-case generators (conformant variants:
# padding units, slice padding bits, prefix bytes, size scaler, dangling
# bounded-block values, absent next offsets, concatenated sequences ...)
# --------------------------------------------------------------------------

import os as _os  # noqa: E402

from sim.core import VERIF as _VERIF  # noqa: E402

CORPUS_CSV = _os.path.join(_VERIF, "corpus", "codec_features.csv")
CORPUS_PICTURES = [_os.path.join(_VERIF, "corpus", "pictures", n + ".raw") for n in ("square", "wide", "tall")]
TC_CODECS = ["minimal", "ld", "lossless", "frag", "fields", "c420", "asym", "customqm"]
_swapped = [False]
_TC = {}


def swap_natural_pictures():
    """The real 'natural' pictures are 4K; swap in the test suite's small ones
    (as tests/smaller_real_pictures.py does).  Recorded as a stub."""
    import vc2_conformance_data

    if not _swapped[0]:
        del vc2_conformance_data.NATURAL_PICTURES_FILENAMES[:]
        vc2_conformance_data.NATURAL_PICTURES_FILENAMES.extend(CORPUS_PICTURES)
        _swapped[0] = True


def testcase_streams(codec):
    """[(test case name, bytes)] of every decoder test case the real generators
    produce for one corpus codec column (deterministic; cached per process).
    Streams above 3000 bytes are skipped (cost)."""
    if codec not in _TC:
        import logging

        from vc2_conformance.codec_features import read_codec_features_csv
        from vc2_conformance.test_cases import DECODER_TEST_CASE_GENERATOR_REGISTRY

        swap_natural_pictures()
        with open(CORPUS_CSV) as f:
            cf = read_codec_features_csv(f)[codec]
        out = []
        lvl = logging.getLogger().level
        logging.getLogger().setLevel(logging.ERROR)
        try:
            for tc in DECODER_TEST_CASE_GENERATOR_REGISTRY.generate_test_cases(cf):
                g = SimFile()
                try:
                    autofill_and_serialise_stream(g, tc.value)
                except Exception:  # noqa: BLE001 — the sender refused: precondition
                    continue
                if len(g.getvalue()) <= 3000:
                    out.append((tc.name, g.getvalue()))
        finally:
            logging.getLogger().setLevel(lvl)
        _TC[codec] = out
    return _TC[codec]
