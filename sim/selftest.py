"""Self-tests of the machinery (DESIGN.md section 12).

determinism: for each property, N runs are executed (a) twice in this process,
(b) in a fresh interpreter under another PYTHONHASHSEED, (c) in a fresh
interpreter under a third PYTHONHASHSEED through a process pool with another
worker count; all event digests must be identical.

  bin/check selftest [--props C02,C24] [--n N] [--seed S]
  bin/check selftest --emit PROP --n N --seed S [--workers W]     (internal)
"""

import argparse
import json
import os
import subprocess
import sys

from sim import core

DEFAULT_N = {"C24": 16, "C10": 200, "C08": 300, "C25": 300, "C26": 300}


def digests(prop, seed, n, workers=1):
    core.ensure_repo()
    spec = core.get_spec(prop)
    spec.setup(seed, "quick")
    if workers <= 1:
        out = []
        for idx in range(n):
            case = spec.generate(core.rng_for(seed, spec.sim, spec.prop, idx), idx, "quick")
            o = spec.guarded_execute(case)
            out.append("%s:%s:%s" % (o.status, o.sig or "", o.digest))
        return out
    import multiprocessing
    from concurrent.futures import ProcessPoolExecutor

    step = max(1, n // (workers * 2))
    chunks = [(prop, seed, i, min(n, i + step)) for i in range(0, n, step)]
    with ProcessPoolExecutor(max_workers=workers, mp_context=multiprocessing.get_context("fork")) as ex:
        parts = list(ex.map(_part, chunks))
    return [d for p in parts for d in p]


def _part(args):
    prop, seed, a, b = args
    spec = core.get_spec(prop)
    spec.setup(seed, "quick")
    out = []
    for idx in range(a, b):
        case = spec.generate(core.rng_for(seed, spec.sim, spec.prop, idx), idx, "quick")
        o = spec.guarded_execute(case)
        out.append("%s:%s:%s" % (o.status, o.sig or "", o.digest))
    return out


def fresh(prop, seed, n, hash_seed, workers):
    env = dict(os.environ)
    env["PYTHONHASHSEED"] = str(hash_seed)
    env["VERIF_NO_REEXEC"] = "1"
    p = subprocess.run(
        [core.PY, os.path.join(core.VERIF, "bin", "check"), "selftest", "--emit", prop, "--n", str(n), "--seed", str(seed), "--workers", str(workers)],
        env=env, stdout=subprocess.PIPE, stderr=subprocess.PIPE, timeout=3600,
    )
    if p.returncode != 0:
        raise core.HarnessError("fresh interpreter failed: %s" % p.stderr.decode()[-800:])
    line = [l for l in p.stdout.decode().splitlines() if l.startswith("DIGESTS ")][-1]
    return json.loads(line[8:])


def main(argv):
    ap = argparse.ArgumentParser()
    ap.add_argument("--props", default="")
    ap.add_argument("--n", type=int, default=0)
    ap.add_argument("--seed", type=int, default=core.get_verif_seed())
    ap.add_argument("--emit", default=None)
    ap.add_argument("--workers", type=int, default=1)
    a = ap.parse_args(argv)
    if a.emit:
        print("DIGESTS " + json.dumps(digests(a.emit, a.seed, a.n, a.workers)))
        return 0
    core.ensure_repo()
    import sim.registry  # noqa: F401

    props = [p for p in a.props.split(",") if p] or sorted(core._SPECS)
    bad = 0
    report = {}
    for prop in props:
        n = a.n or DEFAULT_N.get(prop, 600)
        d1 = digests(prop, a.seed, n)
        d2 = digests(prop, a.seed, n)
        d3 = fresh(prop, a.seed, n, 1, 1)
        d4 = fresh(prop, a.seed, n, 987654, 5)
        same = d1 == d2 == d3 == d4
        if not same:
            bad += 1
            k = next(i for i in range(n) if not (d1[i] == d2[i] == d3[i] == d4[i]))
            print("NONDETERMINISM %s: run %d differs: in-process %s / %s, fresh(hashseed=1) %s, fresh(hashseed=987654, 5 workers) %s" % (prop, k, d1[k], d2[k], d3[k], d4[k]))
        else:
            print("determinism %s: %d runs x 4 executions identical (%d distinct digests)" % (prop, n, len(set(d1))))
        report[prop] = {"runs": n, "identical": same, "distinct_digests": len(set(d1))}
    os.makedirs(os.path.join(core.OUT, "evidence"), exist_ok=True)
    with open(os.path.join(core.OUT, "evidence", "selftest_determinism.json"), "w") as f:
        json.dump({"seed": a.seed, "executions_per_run": ["in-process", "in-process again", "fresh interpreter PYTHONHASHSEED=1", "fresh interpreter PYTHONHASHSEED=987654 via 5-worker pool"], "properties": report}, f, indent=1, sort_keys=True)
    return 3 if bad else 0
