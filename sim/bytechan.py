"""Simulation A — byte channel / storage corruption between the tools
(DESIGN.md section 4).  Sender = real encoder + serialiser; channel/disk =
``sim.faults``; receivers = real validator / deserialiser / CLIs.
"""

from collections import Counter

from sim.core import (
    Spec,
    Outcome,
    OK,
    VIOLATION,
    DISCARD,
    exc_sig,
    short_tb,
    shrink_list,
    register,
)
from sim import workloads as W
from sim import faults as F
from sim import receivers as R

POOL_QUICK = 160
POOL_THOROUGH = 1200

SIMPLE_CFG_STEPS = [
    ("nseq", 1),
    ("npics", 1),
    ("frag", 0),
    ("sy", 1),
    ("sx", 1),
    ("depth_ho", 0),
    ("depth", 1),
    ("pic_kind", "zero"),
    ("first_pic_num", None),
]


def cfg_class(cfg):
    if cfg is None:
        return "raw"
    return "%s%s%s%s" % (
        "HQ" if cfg["profile"] == 3 else "LD",
        "L" if cfg["lossless"] else "",
        "F" if cfg["frag"] else "P",
        "i" if cfg["pcm"] else "p",
    )


class ByteChanSpec(Spec):
    sim = "A"
    chunk = 250
    state_measure = "distinct (configuration class, fault-kind set, receiver verdict classes) tuples"
    components = {
        "real": [
            "vc2_conformance.encoder.make_sequence (sender)",
            "vc2_conformance.bitstream.autofill_and_serialise_stream (sender)",
            "vc2_conformance.decoder.parse_stream (validating decoder)",
            "vc2_conformance.bitstream Deserialiser/Serialiser + vc2.parse_stream",
        ],
        "stub": [
            "file objects (sim.core.SimFile)",
            "channel/disk (sim.faults.apply_faults)",
            "scope guard wrapped around decoder assert_level_constraint (harness process only)",
        ],
    }
    assumptions = [
        "streams declaring frame sizes > 64x64, depths > 4, > 16x16 slices, excursions > 2^20 or base-format-sized pictures are discarded as out of scope (counted)",
        "faults are persistent (at rest): every receiver sees the same faulted bytes",
    ]
    fault_kinds = F.ALL_KINDS
    p_control = 0.10

    def setup(self, verif_seed, tier):
        self.verif_seed = verif_seed
        self.pool = W.config_pool(verif_seed, "A", POOL_THOROUGH if tier == "thorough" else POOL_QUICK)

    def prewarm(self, verif_seed, tier, workers):
        if workers <= 1:
            return
        from concurrent.futures import ProcessPoolExecutor
        import multiprocessing

        n = len(self.pool)
        idxs = [list(range(i, n, workers * 2)) for i in range(workers * 2)]
        with ProcessPoolExecutor(max_workers=workers, mp_context=multiprocessing.get_context("fork")) as ex:
            for part in ex.map(_warm_part, [(self.prop, verif_seed, tier, ix) for ix in idxs]):
                for k, cfg, data in part:
                    self.pool.pool[k] = cfg
                    if data is not None:
                        W._CACHE[repr(sorted(cfg.items()))] = data

    # ---- generation
    def draw_source(self, rng):
        r = rng.random()
        if r < 0.04:
            n = rng.choice([0, 1, 4, 13, 14, 40, 100])
            head = rng.choice([b"", b"BBCD", b"BBCD\x00", b"BBCD\x10"])
            return {"raw": (head + bytes(rng.randrange(256) for _ in range(n))).hex()}
        if r < 0.08:
            return {"cfg": dict(W.minimal_config())}
        return {"cfg": dict(self.pool[rng.randrange(len(self.pool))])}

    def source_bytes(self, case):
        if "raw" in case:
            return bytes.fromhex(case["raw"])
        return W.encode_stream(case["cfg"])

    def generate(self, rng, idx, tier):
        case = self.draw_source(rng)
        try:
            data = self.source_bytes(case)
        except W.WorkloadError:
            case["faults"] = []
            return case
        r = rng.random()
        if r < self.p_control:
            nf = 0
        elif r < 0.50:
            nf = 1
        elif r < 0.75:
            nf = 2
        else:
            nf = rng.randrange(3, 7)
        k = rng.randrange(2, 9)
        enabled = rng.sample(self.fault_kinds, min(k, len(self.fault_kinds)))
        fmap = F.field_map(data) if "cfg" in case else None
        case["faults"] = F.gen_faults(rng, fmap, len(data), nf, enabled)
        return case

    # ---- shrinking
    def shrink(self, case):
        for fl in shrink_list(case["faults"]):
            d = dict(case)
            d["faults"] = fl
            yield d
        if "cfg" in case:
            for k, v in SIMPLE_CFG_STEPS:
                if case["cfg"].get(k) != v:
                    d = dict(case)
                    d["cfg"] = dict(case["cfg"], **{k: v})
                    if k in ("sx", "sy") and d["cfg"]["picture_bytes"] is not None:
                        pass
                    yield d

    # ---- execution scaffolding
    def execute(self, case):
        events = [("case", repr(sorted(case.get("cfg", {}).items())), case.get("raw"), repr(case["faults"]))]
        stats = Counter()
        try:
            clean = self.source_bytes(case)
        except W.WorkloadError as e:
            stats["discard:precondition-encoder"] += 1
            return Outcome(DISCARD, events + [("precondition", str(e))], stats=stats)
        data = F.apply_faults(clean, case["faults"])
        changed = data != clean
        for f in case["faults"]:
            stats["fault:" + f.get("kind", f["k"])] += 1
        events.append(("bytes", len(clean), len(data), data.hex() if len(data) <= 64 else hash_bytes(data)))
        return self.judge(case, clean, data, changed, events, stats)

    def judge(self, case, clean, data, changed, events, stats):
        raise NotImplementedError

    def kinds_of(self, case):
        return ",".join(sorted(set(f.get("kind", f["k"]) for f in case["faults"]))) or "none"


def _warm_part(args):
    from sim.core import get_spec

    prop, verif_seed, tier, ix = args
    spec = get_spec(prop)
    spec.setup(verif_seed, tier)
    out = []
    for k in ix:
        cfg = spec.pool[k]
        try:
            data = W.encode_stream(cfg)
        except W.WorkloadError:
            data = None
        out.append((k, cfg, data))
    return out


def hash_bytes(b):
    import hashlib

    return hashlib.sha256(b).hexdigest()[:16]


# --------------------------------------------------------------------------
# C02 — validator terminates with a verdict on any byte string
# --------------------------------------------------------------------------


class C02(ByteChanSpec):
    prop = "C02"
    title = "Validator terminates with a verdict on any byte string"
    quick_runs = 48000
    thorough_runs = 1200000
    rule = (
        "each run = one seeded workload (real encoder output for a seeded small codec configuration, or raw bytes) "
        "pushed through a channel applying an explicit list of 0-6 faults (bit flips, byte sets, bursts, zero-fill, "
        "truncation, deletion, duplication, insertion, swaps, appended bytes, field-aware overwrites of parse_info / "
        "header varints / slice lengths / picture numbers / coefficient bits, unit drop/dup) and fed to the real "
        "validating decoder on a SimFile. Judged: returns or raises ConformanceError whose explain/offset/hint work. "
        "non-trivial = at least one fault changed the bytes; distinct = distinct event digest "
        "(case + delivered bytes + verdict + read-call count)."
    )

    def judge(self, case, clean, data, changed, events, stats):
        res = R.run_validator(data)
        vname = res.verdict if res.exc is None or res.verdict == "accept" else "%s:%s" % (res.verdict, type(res.exc).__name__)
        events.append(("validator", vname, res.reads, len(res.pics)))
        stats["verdict:" + vname] += 1
        key = "%s|%s|%s" % (cfg_class(case.get("cfg")), self.kinds_of(case), vname)
        if res.verdict == "oos":
            stats["discard:out-of-scope"] += 1
            return Outcome(DISCARD, events, stats=stats, key=None, ticks=res.reads)
        if res.verdict == "crash":
            return Outcome(
                VIOLATION,
                events,
                sig=exc_sig("C02/validator-crash", res.exc),
                detail="validator raised a non-conformance exception on %d bytes:\n%s" % (len(data), short_tb(res.exc)),
                stats=stats,
                nontrivial=changed,
                key=key,
                ticks=res.reads,
            )
        if res.verdict == "reject":
            stats["reject:" + type(res.exc).__name__] += 1
            if res.explain_failure is not None:
                e = res.explain_failure
                return Outcome(
                    VIOLATION,
                    events,
                    sig="C02/report-failed/%s/%s" % (type(res.exc).__name__, type(e).__name__),
                    detail="ConformanceError %s could not be explained/located/hinted:\n%s" % (type(res.exc).__name__, short_tb(e)),
                    stats=stats,
                    nontrivial=changed,
                    key=key,
                    ticks=res.reads,
                )
        if res.verdict == "accept" and changed:
            for f in case["faults"]:
                stats["accepted_after:" + f.get("kind", f["k"])] += 1
        if res.verdict == "reject" and not case["faults"] and "cfg" in case:
            # control arm: encoder output rejected — C03's business, reported
            # as a precondition failure, never as a C02 violation
            stats["precondition:clean-stream-rejected"] += 1
        return Outcome(OK, events, stats=stats, nontrivial=changed, key=key, ticks=res.reads)

    def extra_evidence(self, merged):
        st = merged["stats"]
        return {
            "conformance_error_classes_raised": sorted(k[7:] for k in st if k.startswith("reject:")),
            "faults_injected": {k[6:]: v for k, v in st.items() if k.startswith("fault:")},
            "accepted_after_fault": {k[15:]: v for k, v in st.items() if k.startswith("accepted_after:")},
        }


register(C02())
