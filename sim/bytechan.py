"""Simulation A — byte channel / storage corruption between the tools
(DESIGN.md section 4).  Sender = real encoder + serialiser; channel/disk =
``sim.faults``; receivers = real validator / deserialiser / CLIs.
"""

from collections import Counter

from sim.core import (
    Spec,
    Outcome,
    OK,
    VIOLATION,
    DISCARD,
    exc_sig,
    short_tb,
    shrink_list,
    register,
)
from sim import workloads as W
from sim import faults as F
from sim import receivers as R

POOL_QUICK = 640
POOL_THOROUGH = 1200

SIMPLE_CFG_STEPS = [
    ("nseq", 1),
    ("extras", None),
    ("mix3", None),
    ("mix", None),
    ("color", None),
    ("npics", 1),
    ("frag", 0),
    ("sy", 1),
    ("sx", 1),
    ("depth_ho", 0),
    ("depth", 1),
    ("pic_kind", "zero"),
    ("first_pic_num", None),
]


def src_of(case):
    return case.get("cfg") or case.get("tc") or case.get("hist") or case.get("tw") or (("gold", case["gold"]) if "gold" in case else None)


def cfg_class(cfg):
    if isinstance(cfg, tuple) and cfg and cfg[0] == "gold":
        return "gold:" + cfg[1][:4]
    if isinstance(cfg, dict) and "w" in cfg and "cfg" in cfg:
        return "twins:" + "".join(str(x) for x in cfg["w"])
    if isinstance(cfg, list):
        return "tc:" + cfg[0]
    if isinstance(cfg, dict) and "units" in cfg:
        return "hist:" + "".join(u["t"] for u in cfg["units"])[:10]
    if cfg is None:
        return "raw"
    return "%s%s%s%s" % (
        "HQ" if cfg["profile"] == 3 else "LD",
        "L" if cfg["lossless"] else "",
        "F" if cfg["frag"] else "P",
        "i" if cfg["pcm"] else "p",
    )


class ByteChanSpec(Spec):
    sim = "A"
    guard_globals = True
    chunk = 125
    state_measure = "distinct (configuration class, fault-kind set, receiver verdict classes) tuples"
    components = {
        "real": [
            "vc2_conformance.encoder.make_sequence (sender; seeded small configurations incl. mixed-geometry sequences, padding/auxiliary units, colour specs, 1-39 bit depths)",
            "vc2_conformance.test_cases decoder test-case generators for eight corpus columns (sender; 16% of workloads)",
            "simulation B's data-unit channel over real encoder output (sender; 20% of workloads)",
            "a frozen corpus of 64 conformant streams (corpus/gold; 4% of workloads): bytes written by the unchanged tree's encoder, so that a sender-side break cannot hide a receiver-side one",
            "vc2_conformance.bitstream.autofill_and_serialise_stream (sender)",
            "vc2_conformance.decoder.parse_stream (validating decoder)",
            "vc2_conformance.bitstream Deserialiser/Serialiser + vc2.parse_stream",
        ],
        "stub": [
            "file objects (sim.core.SimFile)",
            "channel/disk (sim.faults.apply_faults)",
            "scope guard wrapped around decoder assert_level_constraint (harness process only)",
            "isolation invariant: library process-global tables restored to pristine before, and compared after, every run",
        ],
    }
    assumptions = [
        "streams declaring frame sizes > 64x64, transform depths > 4, > 16x16 slices, excursions > 2^72 or base-format-sized pictures are discarded as out of scope (counted)",
        "faults are persistent (at rest): every receiver sees the same faulted bytes",
    ]
    fault_kinds = F.ALL_KINDS
    p_control = 0.10
    # single-fault enumeration arm ("crash-point sweep"): a run of this kind
    # applies EVERY truncation point / EVERY single-bit flip / EVERY one-byte
    # deletion of (a window of) one sampled workload, one fault at a time.
    # (probability of a truncation sweep, of a flip/deletion sweep, window bytes)
    sweep_quick = (0.002, 0.0006, 48)
    sweep_thorough = (0.006, 0.003, 256)

    def setup(self, verif_seed, tier):
        R.use_real_levels()
        self.verif_seed = verif_seed
        self.pool = W.config_pool(verif_seed, "A", POOL_THOROUGH if tier == "thorough" else POOL_QUICK)

    def prewarm(self, verif_seed, tier, workers):
        if workers <= 1:
            return
        from concurrent.futures import ProcessPoolExecutor
        import multiprocessing

        n = len(self.pool)
        idxs = [list(range(i, n, workers * 2)) for i in range(workers * 2)]
        # everything the run workers would otherwise each compute for
        # themselves (pure caches; no effect on any result): encoded streams and
        # their field maps, the test-case-generator streams, the unit pools
        for codec in W.TC_CODECS:
            W.testcase_streams(codec)
        tcs = [s for codec in W.TC_CODECS for _name, s in W.testcase_streams(codec)]
        with ProcessPoolExecutor(max_workers=workers, mp_context=multiprocessing.get_context("fork")) as ex:
            for part in ex.map(_warm_part, [(self.prop, verif_seed, tier, ix) for ix in idxs]):
                for k, cfg, data, fm in part:
                    self.pool.pool[k] = cfg
                    if data is not None:
                        W._CACHE[repr(sorted(cfg.items()))] = data
                        if fm is not None:
                            F._FMAP_CACHE[data] = fm
            for part in ex.map(_warm_fmaps, [tcs[i :: workers * 2] for i in range(workers * 2)]):
                for data, fm in part:
                    F._FMAP_CACHE[data] = fm
        from sim import unitchan as U

        for k in range(min(24, len(self.pool))):
            try:
                U.get_pool(dict(self.pool[k]))
            except W.WorkloadError:
                pass

    # ---- generation
    p_wide = 0.001

    def draw_source(self, rng):
        r = rng.random()
        if rng.random() < self.p_wide:
            # an extreme-aspect picture (seconds per run: kept rare)
            wc = W.wide_configs()
            return {"cfg": dict(wc[rng.randrange(len(wc))])}
        if r < 0.04:
            n = rng.choice([0, 1, 4, 13, 14, 40, 100])
            head = rng.choice([b"", b"BBCD", b"BBCD\x00", b"BBCD\x10"])
            return {"raw": (head + bytes(rng.randrange(256) for _ in range(n))).hex()}
        if r < 0.08:
            return {"cfg": dict(W.minimal_config())}
        if r < 0.20:
            # a data-unit history from simulation B's channel (level 0, real
            # level tables): structural faults with state carried over from
            # earlier units, on top of which byte faults are applied
            from sim import unitchan as U

            cfg = dict(self.pool[rng.randrange(min(24, len(self.pool)))])
            try:
                upool = U.get_pool(cfg)
                units = U.gen_history(rng, upool, levels=[0])
                _data, _abs, misframed = U.assemble(upool, units)
                if not misframed:
                    return {"hist": {"cfg": cfg, "units": units}}
            except W.WorkloadError:
                pass
        if 0.42 <= r < 0.46:
            # a stream of the frozen corpus (bytes produced by the unchanged
            # tree's encoder: independent of the sender under test)
            names = W.gold_names()
            name = names[rng.randrange(len(names))]
            if not name.startswith("wide") or rng.random() < 0.15:
                return {"gold": name}
        if 0.36 <= r < 0.42:
            # "twin" sequences in one stream: one configuration, mid-grey
            # pictures, one thing changed per sequence
            cfg = dict(self.pool[rng.randrange(len(self.pool))], nseq=1, extras=None, mix=None)
            cfg["npics"] = min(cfg["npics"], 2) if cfg["pcm"] == 0 else 2
            ws = [0] + [rng.randrange(1, 8) for _ in range(rng.choice([1, 1, 2]))]
            if rng.random() < 0.5:
                ws.append(0)
            try:
                W.encode_twinseq(cfg, ws)
                return {"tw": {"cfg": cfg, "w": ws}}
            except W.WorkloadError:
                pass
        if r < 0.36:
            # a stream from the real decoder test-case generators
            codec = rng.choice(W.TC_CODECS)
            streams = W.testcase_streams(codec)
            i = rng.randrange(len(streams))
            return {"tc": [codec, i, streams[i][0]]}
        return {"cfg": dict(self.pool[rng.randrange(len(self.pool))])}

    def source_bytes(self, case):
        if "raw" in case:
            return bytes.fromhex(case["raw"])
        if "hist" in case:
            from sim import unitchan as U

            try:
                data, _abs, misframed = U.assemble(U.get_pool(case["hist"]["cfg"]), case["hist"]["units"])
            except (IndexError, TypeError, KeyError) as e:
                raise W.WorkloadError("malformed history: %r" % (e,))
            if misframed:
                raise W.WorkloadError("history breaks the composition rule")
            return data
        if "gold" in case:
            return W.gold_stream(case["gold"])
        if "tw" in case:
            return W.encode_twinseq(case["tw"]["cfg"], case["tw"]["w"])
        if "tc" in case:
            streams = W.testcase_streams(case["tc"][0])
            if case["tc"][1] >= len(streams) or streams[case["tc"][1]][0] != case["tc"][2]:
                raise W.WorkloadError("test case %r not produced by this tree" % (case["tc"],))
            return streams[case["tc"][1]][1]
        return W.encode_stream(case["cfg"])

    def generate(self, rng, idx, tier):
        case = self.draw_source(rng)
        try:
            data = self.source_bytes(case)
        except W.WorkloadError:
            case["faults"] = []
            return case
        r = rng.random()
        p_tr, p_fl, win = self.sweep_thorough if tier == "thorough" else self.sweep_quick
        wide = ("cfg" in case and max(case["cfg"].get("w", 0), case["cfg"].get("h", 0)) > 1000) or str(case.get("gold", "")).startswith("wide")
        if wide:
            # seconds per execution: no enumeration, mostly fault-free
            p_tr = p_fl = 0.0
        if "raw" not in case and len(data) > 0 and r < p_tr + p_fl:
            case["faults"] = []
            # cost bound: (single-fault executions) x (stream bytes) stays below
            # ~win * 6000, so that a long stream gets a narrower window
            win = max(4, min(win, (win * 6000) // (8 * len(data))))
            if r < p_tr:
                # every truncation point of a window of 4*win positions (the
                # whole stream when it is shorter), ends included
                lo = rng.randrange(max(1, len(data) - 4 * win + 1))
                case["sweep"] = {"k": "trunc", "lo": lo, "hi": min(len(data), lo + 4 * win)}
            else:
                lo = rng.randrange(max(1, len(data) - win + 1))
                case["sweep"] = {"k": rng.choice(["flip", "flip", "del"]), "lo": lo, "hi": min(len(data), lo + win)}
            return case
        r = rng.random()
        if r < self.p_control:
            nf = 0
        elif r < 0.50:
            nf = 1
        elif r < 0.75:
            nf = 2
        else:
            nf = rng.randrange(3, 7)
        if "hist" in case and rng.random() < 0.5:
            nf = 0  # the history's own structural faults are the faults
        if wide and rng.random() < 0.6:
            nf = 0
        k = rng.randrange(2, 9)
        enabled = rng.sample(self.fault_kinds, min(k, len(self.fault_kinds)))
        fmap = F.field_map(data) if ("cfg" in case or "tc" in case or "hist" in case or "tw" in case or "gold" in case) else None
        case["faults"] = F.gen_faults(rng, fmap, len(data), nf, enabled)
        return case

    # ---- single-fault enumeration
    @staticmethod
    def sweep_faults(sw):
        if sw["k"] == "trunc":
            return [{"k": "trunc", "at": a, "kind": "trunc"} for a in range(sw["lo"], sw["hi"])]
        if sw["k"] == "del":
            return [{"k": "del", "at": a, "n": 1, "kind": "del"} for a in range(sw["lo"], sw["hi"])]
        return [{"k": "flip", "bit": b, "kind": "flip"} for b in range(sw["lo"] * 8, sw["hi"] * 8)]

    def execute_sweep(self, case):
        base = {k: v for k, v in case.items() if k != "sweep"}
        sw = case["sweep"]
        stats = Counter()
        digests = []
        ticks = 0
        judged = 0
        first = None
        for f in self.sweep_faults(sw):
            out = self.execute(dict(base, faults=[f]))
            for k, v in out.stats.items():
                stats[k] += v
            ticks += out.ticks
            digests.append(out.digest)
            if out.status != DISCARD:
                judged += 1
            if out.status == VIOLATION and first is None:
                first = (f, out)
        stats["sweep:%s" % sw["k"]] += 1
        stats["sweep:%s:single-fault-executions" % sw["k"]] += len(digests)
        events = [("sweep", sw["k"], sw["lo"], sw["hi"], digests)]
        key = "%s|sweep:%s" % (cfg_class(src_of(case)), sw["k"])
        if first is not None:
            f, out = first
            return Outcome(VIOLATION, events, sig=out.sig, detail="(single-fault sweep, first failing fault %r)\n%s" % (f, out.detail), stats=stats, nontrivial=True, key=key, ticks=ticks)
        if not judged:
            return Outcome(DISCARD, events, stats=stats, ticks=ticks)
        return Outcome(OK, events, stats=stats, nontrivial=True, key=key, ticks=ticks)

    def explicate(self, case):
        """A sweep case is replaced by its first violating single-fault case
        (so that the replay file holds the explicit fault)."""
        if "sweep" not in case:
            return case
        base = {k: v for k, v in case.items() if k != "sweep"}
        for f in self.sweep_faults(case["sweep"]):
            sub = dict(base, faults=[f])
            if self.guarded_execute(sub).status == VIOLATION:
                return sub
        return case

    # ---- shrinking
    def shrink(self, case):
        if "sweep" in case:
            # the enumeration's own single-fault cases, in order: the minimiser
            # keeps the first one that reproduces the violation
            base = {k: v for k, v in case.items() if k != "sweep"}
            for f in self.sweep_faults(case["sweep"]):
                yield dict(base, faults=[f])
            return
        for fl in shrink_list(case["faults"]):
            d = dict(case)
            d["faults"] = fl
            yield d
        if "hist" in case:
            for us in shrink_list(case["hist"]["units"]):
                yield dict(case, hist=dict(case["hist"], units=us))
        if "tw" in case and len(case["tw"]["w"]) > 1:
            for ws in shrink_list(case["tw"]["w"]):
                if ws:
                    yield dict(case, tw=dict(case["tw"], w=ws))
        if "cfg" in case:
            for k, v in SIMPLE_CFG_STEPS:
                if case["cfg"].get(k) != v:
                    d = dict(case)
                    d["cfg"] = dict(case["cfg"], **{k: v})
                    if k in ("sx", "sy") and d["cfg"]["picture_bytes"] is not None:
                        pass
                    yield d

    # ---- execution scaffolding
    def execute(self, case):
        if "sweep" in case:
            return self.execute_sweep(case)
        events = [("case", repr(sorted(case.get("cfg", {}).items())), case.get("raw"), case.get("tc"), repr(case.get("hist")), repr(case.get("tw")), case.get("gold"), repr(case["faults"]))]
        stats = Counter()
        try:
            clean = self.source_bytes(case)
        except W.WorkloadError as e:
            stats["discard:precondition-encoder"] += 1
            return Outcome(DISCARD, events + [("precondition", str(e))], stats=stats)
        data = F.apply_faults(clean, case["faults"])
        changed = data != clean
        for f in case["faults"]:
            stats["fault:" + f.get("kind", f["k"])] += 1
        events.append(("bytes", len(clean), len(data), data.hex() if len(data) <= 64 else hash_bytes(data)))
        return self.judge(case, clean, data, changed, events, stats)

    def judge(self, case, clean, data, changed, events, stats):
        raise NotImplementedError

    def kinds_of(self, case):
        return ",".join(sorted(set(f.get("kind", f["k"]) for f in case["faults"]))) or "none"


def _warm_part(args):
    from sim.core import get_spec

    prop, verif_seed, tier, ix = args
    spec = get_spec(prop)
    spec.setup(verif_seed, tier)
    out = []
    for k in ix:
        cfg = spec.pool[k]
        fm = None
        try:
            data = W.encode_stream(cfg)
            fm = F.FieldMap(data)
        except W.WorkloadError:
            data = None
        out.append((k, cfg, data, fm))
    return out


def _warm_fmaps(datas):
    return [(d, F.FieldMap(d)) for d in datas]


def hash_bytes(b):
    import hashlib

    return hashlib.sha256(b).hexdigest()[:16]


# --------------------------------------------------------------------------
# C02 — validator terminates with a verdict on any byte string
# --------------------------------------------------------------------------


class C02(ByteChanSpec):
    prop = "C02"
    title = "Validator terminates with a verdict on any byte string"
    quick_runs = 36000
    thorough_runs = 1200000
    rule = (
        "each run = one seeded workload (real encoder output for a seeded small codec configuration, a stream from the real decoder test-case generators, a data-unit history from simulation B's channel, or raw bytes) "
        "pushed through a channel applying an explicit list of 0-6 faults (bit flips, byte sets, bursts, zero-fill, "
        "truncation, deletion, duplication, insertion, swaps, appended bytes, field-aware overwrites of parse_info / "
        "header varints / slice lengths / picture numbers / coefficient bits, unit drop/dup) and fed to the real "
        "validating decoder on a SimFile. Judged: returns or raises ConformanceError whose explain/offset/hint work. "
        "non-trivial = at least one fault changed the bytes; distinct = distinct event digest "
        "(case + delivered bytes + verdict + read-call count)."
    )

    def judge(self, case, clean, data, changed, events, stats):
        res = R.run_validator(data)
        vname = res.verdict if res.exc is None or res.verdict == "accept" else "%s:%s" % (res.verdict, type(res.exc).__name__)
        events.append(("validator", vname, res.reads, len(res.pics)))
        stats["verdict:" + vname] += 1
        key = "%s|%s|%s" % (cfg_class(src_of(case)), self.kinds_of(case), vname)
        if res.verdict == "oos":
            stats["discard:out-of-scope"] += 1
            return Outcome(DISCARD, events, stats=stats, key=None, ticks=res.reads)
        if res.verdict == "hang":
            return Outcome(
                VIOLATION, events, sig="C02/validator-does-not-terminate",
                detail="the validator issued %d read() calls on a %d-byte stream without reaching a verdict (step budget exceeded)" % (res.reads, len(data)),
                stats=stats, nontrivial=changed, key=key, ticks=res.reads,
            )
        if res.verdict == "crash":
            return Outcome(
                VIOLATION,
                events,
                sig=exc_sig("C02/validator-crash", res.exc),
                detail="validator raised a non-conformance exception on %d bytes:\n%s" % (len(data), short_tb(res.exc)),
                stats=stats,
                nontrivial=changed,
                key=key,
                ticks=res.reads,
            )
        if res.verdict == "reject":
            stats["reject:" + type(res.exc).__name__] += 1
            if res.explain_failure is not None:
                e = res.explain_failure
                return Outcome(
                    VIOLATION,
                    events,
                    sig="C02/report-failed/%s/%s" % (type(res.exc).__name__, type(e).__name__),
                    detail="ConformanceError %s could not be explained/located/hinted:\n%s" % (type(res.exc).__name__, short_tb(e)),
                    stats=stats,
                    nontrivial=changed,
                    key=key,
                    ticks=res.reads,
                )
        if res.verdict == "accept" and changed:
            for f in case["faults"]:
                stats["accepted_after:" + f.get("kind", f["k"])] += 1
        if res.verdict == "reject" and not case["faults"] and "cfg" in case:
            # control arm: encoder output rejected — C03's business, reported
            # as a precondition failure, never as a C02 violation
            stats["precondition:clean-stream-rejected"] += 1
        return Outcome(OK, events, stats=stats, nontrivial=changed, key=key, ticks=res.reads)

    def extra_evidence(self, merged):
        st = merged["stats"]
        return {
            "conformance_error_classes_raised": sorted(k[7:] for k in st if k.startswith("reject:")),
            "faults_injected": {k[6:]: v for k, v in st.items() if k.startswith("fault:")},
            "accepted_after_fault": {k[15:]: v for k, v in st.items() if k.startswith("accepted_after:")},
        }


register(C02())


# --------------------------------------------------------------------------
# C06 — deserialise -> serialise reproduces any parseable stream
# --------------------------------------------------------------------------

SERDES_KINDS = F.ALL_KINDS + ["f_wrap_unit"] * 3 + ["f_block_cut"] * 4 + ["f_coeff_huge", "f_coeff_huge", "f_offsets", "f_offsets", "f_uint", "f_uint", "f_lenbyte", "f_lenbyte", "f_fixed", "f_coeff"]


class C06(ByteChanSpec):
    prop = "C06"

    def generate(self, rng, idx, tier):
        case = ByteChanSpec.generate(self, rng, idx, tier)
        if rng.random() < 0.08 and "sweep" not in case:
            case["overlap"] = rng.randrange(1, 1 << 16)
        return case

    title = "Deserialising then serialising any parseable stream reproduces its bytes"
    quick_runs = 24000
    thorough_runs = 800000
    fault_kinds = SERDES_KINDS
    rule = (
        "each run = seeded workload (real encoder output / raw bytes) + explicit fault list (as C02, weighted towards "
        "parse offsets, header varints, slice length bytes and coefficient bits); the faulted bytes are deserialised by "
        "the real (Monitored)Deserialiser; if and only if that parses to completion the description is re-serialised "
        "by the real Serialiser and deserialised again. Judged: output bytes == input bytes and second description == "
        "first. Runs the deserialiser cannot parse are discarded (outside the property's domain) and counted. "
        "non-trivial = bytes changed by a fault and still parsed; distinct = distinct event digest."
    )

    def judge(self, case, clean, data, changed, events, stats):
        d = R.run_deserialiser(data)
        events.append(("deser", d.verdict, type(d.exc).__name__ if d.exc else None, d.reads))
        key = "%s|%s|%s" % (cfg_class(src_of(case)), self.kinds_of(case), d.verdict)
        if d.verdict == "oos":
            stats["discard:out-of-scope"] += 1
            return Outcome(DISCARD, events, stats=stats, ticks=d.reads)
        if d.verdict == "fail":
            stats["discard:not-parseable:" + type(d.exc).__name__] += 1
            if not case["faults"] and "cfg" in case:
                stats["precondition:clean-stream-not-parseable"] += 1
            return Outcome(DISCARD, events, stats=stats, ticks=d.reads)
        stats["parsed"] += 1
        if changed:
            for f in case["faults"]:
                stats["parsed_after:" + f.get("kind", f["k"])] += 1
        out, exc = R.run_serialiser(d.context)
        if exc is not None:
            events.append(("ser-exc", type(exc).__name__))
            return Outcome(
                VIOLATION, events, sig=exc_sig("C06/serialise-raised", exc),
                detail="stream of %d bytes deserialised to completion but Serialiser raised:\n%s" % (len(data), short_tb(exc)),
                stats=stats, nontrivial=changed, key=key, ticks=d.reads,
            )
        events.append(("ser", len(out), hash_bytes(out)))
        if out != data:
            n = min(len(out), len(data))
            first = next((i for i in range(n) if out[i] != data[i]), n)
            return Outcome(
                VIOLATION, events, sig="C06/bytes-differ",
                detail="re-serialised bytes differ from the input: first difference at byte %d (input %d bytes, output %d bytes)\n in=%s\nout=%s"
                % (first, len(data), len(out), data[max(0, first - 4) : first + 8].hex(), out[max(0, first - 4) : first + 8].hex()),
                stats=stats, nontrivial=changed, key=key, ticks=d.reads,
            )
        if case.get("overlap"):
            # a second stream's reader is open while this one is parsed (and
            # vice versa): both must read exactly what they read on their own
            other = W.encode_stream(dict(W.minimal_config(), pic_seed=case["overlap"], extras=[[1, "aux", 9, case["overlap"] & 0xFF]]))
            solo_other, _e = R.run_plain_deserialiser(other)
            got_a, got_b = R.run_two_open_deserialisers(data, other)
            stats["two-open-readers"] += 1
            if got_a != d.context or (solo_other is not None and got_b != solo_other):
                return Outcome(
                    VIOLATION, events, sig="C06/readers-not-independent",
                    detail="with two BitstreamReaders open at once (each on its own file) the %s stream deserialises differently than on its own" % ("first" if got_a != d.context else "second"),
                    stats=stats, nontrivial=True, key=key, ticks=d.reads,
                )
        ctx2, exc2 = R.run_plain_deserialiser(out)
        if exc2 is not None:
            return Outcome(
                VIOLATION, events, sig=exc_sig("C06/redeserialise-raised", exc2),
                detail="re-deserialising the serialiser's output raised:\n%s" % short_tb(exc2),
                stats=stats, nontrivial=changed, key=key, ticks=d.reads,
            )
        if ctx2 != d.context:
            return Outcome(
                VIOLATION, events, sig="C06/description-differs",
                detail="description obtained from the re-serialised bytes differs from the first description",
                stats=stats, nontrivial=changed, key=key, ticks=d.reads,
            )
        return Outcome(OK, events, stats=stats, nontrivial=changed, key=key, ticks=d.reads)

    def extra_evidence(self, merged):
        st = merged["stats"]
        return {
            "faults_injected": {k[6:]: v for k, v in st.items() if k.startswith("fault:")},
            "parsed_after_fault": {k[13:]: v for k, v in st.items() if k.startswith("parsed_after:")},
        }


register(C06())


# --------------------------------------------------------------------------
# C08 / C09 — accepted streams: the two parsers agree; pictures are well formed
# --------------------------------------------------------------------------

ACCEPT_KINDS = ["f_coeff_long"] * 2 + ["f_frag_len"] * 2 + ["f_coeff"] * 6 + ["f_coeff_huge"] * 3 + ["f_block_cut"] * 4 + ["flip", "flip", "f_lenbyte", "f_lenbyte", "f_bool", "f_uint", "f_fixed", "set", "f_picnum", "burst", "zero", "f_unit_dup", "f_unit_drop", "append", "f_ld_resize", "f_ld_resize", "f_frag_alias"]


def h_quant_factor(i):
    base = 1 << (i // 4)
    r = i % 4
    if r == 0:
        return 4 * base
    if r == 1:
        return (503829 * base + 52958) // 105917
    if r == 2:
        return (665857 * base + 58854) // 117708
    return (440253 * base + 32722) // 65444


def h_inverse_quant(v, qi):
    """(13.3.1) written independently of vc2_conformance.pseudocode.quantization."""
    if v == 0:
        return 0
    f = h_quant_factor(qi)
    off = 1 if qi == 0 else 2 if qi == 1 else (f + 1) // 2
    m = (abs(v) * f + off + 2) // 4
    return m if v > 0 else -m


def h_dc_predict(band):
    """(13.4) written independently of decoder.transform_data_syntax.dc_prediction."""
    for y in range(len(band)):
        row = band[y]
        for x in range(len(row)):
            if x > 0 and y > 0:
                s = row[x - 1] + band[y - 1][x - 1] + band[y - 1][x]
                p = (s + 1) // 3
            elif x > 0:
                p = row[x - 1]
            elif y > 0:
                p = band[y - 1][0]
            else:
                p = 0
            row[x] += p


def band_order(depth, depth_ho):
    if depth_ho == 0:
        out = [(0, "LL")]
    else:
        out = [(0, "L")] + [(l, "H") for l in range(1, depth_ho + 1)]
    for l in range(depth_ho + 1, depth_ho + depth + 1):
        out += [(l, "HL"), (l, "LH"), (l, "HH")]
    return out


def described_quant_matrix(tp_ctx, st):
    """The quantisation matrix a picture's deserialised transform parameters
    describe: the custom values listed, or the default table entry."""
    from vc2_data_tables import QUANTISATION_MATRICES

    qmc = tp_ctx["quant_matrix"]
    if qmc["custom_quant_matrix"]:
        return W.qm_to_dict(list(qmc["quant_matrix"]), st["dwt_depth"], st["dwt_depth_ho"])
    m = QUANTISATION_MATRICES[(st["wavelet_index"], st["wavelet_index_ho"], st["dwt_depth"], st["dwt_depth_ho"])]
    return {l: dict(o) for l, o in m.items()}


def rebuild_transform(st, slices, is_ld, qm):
    """From the deserialised slices of one picture and the deserialiser's state
    copy ``st``, rebuild y/c1/c2 transform arrays: place by slice geometry
    (shared repo helper — both parsers use it, see DESIGN 9.3), dequantise and
    DC-predict with the harness's own arithmetic."""
    from vc2_conformance.pseudocode.slice_sizes import (
        subband_width, subband_height, slice_left, slice_right, slice_top, slice_bottom,
    )

    order = band_order(st["dwt_depth"], st["dwt_depth_ho"])
    out = {}
    for comp in ("Y", "C1", "C2"):
        t = {}
        for lvl, o in order:
            t.setdefault(lvl, {})[o] = [[0] * subband_width(st, lvl, comp) for _ in range(subband_height(st, lvl, comp))]
        out[comp] = t
    for sl in slices:
        sx, sy, q = sl["_sx"], sl["_sy"], sl["qindex"]
        if is_ld:
            streams = [("Y", iter(sl["y_transform"]), None), ("C", iter(sl["c_transform"]), None)]
        else:
            streams = [("Y", iter(sl["y_transform"]), None), ("C1", iter(sl["c1_transform"]), None), ("C2", iter(sl["c2_transform"]), None)]
        for name, it, _ in streams:
            geom = "Y" if name == "Y" else "C1"
            for lvl, o in order:
                qi = max(q - qm[lvl][o], 0)
                y1, y2 = slice_top(st, sy, geom, lvl), slice_bottom(st, sy, geom, lvl)
                x1, x2 = slice_left(st, sx, geom, lvl), slice_right(st, sx, geom, lvl)
                for y in range(y1, y2):
                    for x in range(x1, x2):
                        if name == "C":
                            out["C1"][lvl][o][y][x] = h_inverse_quant(next(it), qi)
                            out["C2"][lvl][o][y][x] = h_inverse_quant(next(it), qi)
                        else:
                            out[name][lvl][o][y][x] = h_inverse_quant(next(it), qi)
            if next(it, None) is not None:
                raise ValueError("deserialised slice holds more coefficients than the slice geometry has")
    if is_ld:
        dc = "LL" if st["dwt_depth_ho"] == 0 else "L"
        for comp in ("Y", "C1", "C2"):
            h_dc_predict(out[comp][0][dc])
    return out


def h_dims(vp, pcm):
    """Component sizes and depths implied by decoded header values (11.6.2,
    11.6.3), computed by the harness."""
    cdf = int(vp["color_diff_format_index"])
    lw, lh = vp["frame_width"], vp["frame_height"]
    cw, ch = lw // W.HSUB[cdf], lh // W.VSUB[cdf]
    if int(pcm) == 1:
        lh //= 2
        ch //= 2
    return {
        "Y": (lw, lh, W.intlog2(vp["luma_excursion"] + 1)),
        "C1": (cw, ch, W.intlog2(vp["color_diff_excursion"] + 1)),
        "C2": (cw, ch, W.intlog2(vp["color_diff_excursion"] + 1)),
    }


PICTURE_CODES = (0xC8, 0xE8)
FRAGMENT_CODES = (0xCC, 0xEC)


class AcceptedSpec(ByteChanSpec):
    fault_kinds = ACCEPT_KINDS
    p_control = 0.12

    def judge(self, case, clean, data, changed, events, stats):
        v = R.run_validator(data, tap=True)
        vname = v.verdict if v.verdict == "accept" or v.exc is None else "%s:%s" % (v.verdict, type(v.exc).__name__)
        events.append(("validator", vname, v.reads, len(v.pics)))
        if v.verdict == "oos":
            stats["discard:out-of-scope"] += 1
            return Outcome(DISCARD, events, stats=stats, ticks=v.reads)
        if v.verdict == "reject":
            out = self.judge_rejected(case, data, changed, v, events, stats)
            if out is not None:
                return out
        if v.verdict != "accept":
            stats["discard:not-accepted"] += 1
            if not case["faults"] and "cfg" in case:
                stats["precondition:clean-stream-rejected"] += 1
            return Outcome(DISCARD, events, stats=stats, ticks=v.reads)
        stats["accepted"] += 1
        if changed:
            stats["accepted_after_fault"] += 1
            for f in case["faults"]:
                stats["accepted_after:" + f.get("kind", f["k"])] += 1
        key = "%s|%s|pics=%d" % (cfg_class(src_of(case)), self.kinds_of(case), len(v.pics))
        return self.judge_accepted(case, data, changed, v, events, stats, key)

    def judge_rejected(self, case, data, changed, v, events, stats):
        """Hook: what a property still says about a stream the validator
        rejects (default: nothing — outside the domain)."""
        return None

    def extra_evidence(self, merged):
        st = merged["stats"]
        return {
            "faults_injected": {k[6:]: v for k, v in st.items() if k.startswith("fault:")},
            "accepted_after_fault": {k[15:]: v for k, v in st.items() if k.startswith("accepted_after:")},
        }


class C08(AcceptedSpec):
    prop = "C08"
    title = "Bitstream deserialiser and validator read identical content"
    quick_runs = 18000
    thorough_runs = 600000
    assumptions = ByteChanSpec.assumptions + [
        "slice geometry helpers (vc2_conformance.pseudocode.slice_sizes) are shared by both parsers and by the oracle; dequantisation and DC prediction are re-implemented in the harness",
    ]
    rule = (
        "each run = seeded workload + explicit fault list weighted towards slice payload bits, length bytes and header "
        "fields; only streams the real validator ACCEPTS are judged (others discarded, counted). Judged: the real "
        "Deserialiser lists the same data units (offset, parse code, next/previous offsets), the same parse parameters / "
        "decoded video parameters / picture coding mode, the same transform parameters, and its slice coefficients — placed "
        "by slice geometry, dequantised and DC-predicted by harness code — equal the y/c1/c2 transform arrays captured "
        "from the validator at picture_decode. non-trivial = accepted although a fault changed the bytes."
    )

    def judge_accepted(self, case, data, changed, v, events, stats, key):
        def viol(sig, detail):
            return Outcome(VIOLATION, events, sig=sig, detail=detail, stats=stats, nontrivial=changed, key=key, ticks=v.reads)

        d = R.run_deserialiser(data)
        events.append(("deser", d.verdict, type(d.exc).__name__ if d.exc else None))
        if d.verdict == "oos":
            stats["discard:out-of-scope-deser"] += 1
            return Outcome(DISCARD, events, stats=stats, ticks=v.reads)
        if d.verdict != "parsed":
            return viol(exc_sig("C08/deserialiser-failed-on-accepted-stream", d.exc), "validator accepted the stream but the deserialiser raised:\n%s" % short_tb(d.exc))
        ctx = d.context
        # 0. the deserialiser driven the way the viewer drives it (seek back
        # and re-read every value) must read the same description
        dv = R.run_deserialiser(data, reread=True)
        if dv.verdict != "parsed":
            return viol(exc_sig("C08/viewer-style-deserialiser-failed", dv.exc) if dv.exc is not None else "C08/viewer-style-deserialiser-failed", "the deserialiser, driven as the viewer drives it (seek back + re-read after each value), failed on an accepted stream:\n%s" % (short_tb(dv.exc) if dv.exc is not None else dv.verdict))
        if dv.context != ctx:
            return viol("C08/viewer-style-description-differs", "the deserialiser driven as the viewer drives it reads a different description than the plain deserialiser")
        # 1. data units
        units = []
        for seq in ctx["sequences"]:
            for du in seq["data_units"]:
                pi = du["parse_info"]
                units.append((pi["_offset"], int(pi["parse_code"]), pi["next_parse_offset"], pi["previous_parse_offset"]))
        vunits = [(o, int(c), n, p) for (o, c, n, p) in v.unit_codes]
        if units != vunits:
            return viol("C08/data-units-differ", "data unit lists differ:\n deserialiser=%r\n validator  =%r" % (units[:12], vunits[:12]))
        # 2. headers and 3. pictures
        hi = 0
        di = 0
        for seq in ctx["sequences"]:
            frag_slices = None
            frag_state = None
            for du in seq["data_units"]:
                code = int(du["parse_info"]["parse_code"])
                if code == 0x00:
                    if hi >= len(v.headers):
                        return viol("C08/header-count", "deserialiser saw more sequence headers than the validator")
                    vh = v.headers[hi]
                    hi += 1
                    pp = du["sequence_header"]["parse_parameters"]
                    mine = (pp["major_version"], pp["minor_version"], int(pp["profile"]), int(pp["level"]))
                    theirs = (vh["major_version"], vh["minor_version"], int(vh["profile"]), int(vh["level"]))
                    if mine != theirs:
                        return viol("C08/parse-parameters-differ", "parse parameters differ: deserialiser %r validator %r" % (mine, theirs))
                    if hi - 1 >= len(d.headers):
                        return viol("C08/header-count", "deserialiser decoded fewer sequence headers than it lists")
                    dh_vp, dh_pcm = d.headers[hi - 1]
                    dvp = {k: int(x) if not isinstance(x, bool) else x for k, x in dh_vp.items()}
                    vvp = {k: int(x) if not isinstance(x, bool) else x for k, x in vh["video_parameters"].items()}
                    if dvp != vvp or int(dh_pcm) != int(vh["picture_coding_mode"]):
                        return viol("C08/video-parameters-differ", "decoded video parameters differ:\n deserialiser=%r\n validator  =%r" % (dvp, vvp))
                elif code in PICTURE_CODES:
                    td = du["picture_parse"]["wavelet_transform"]["transform_data"]
                    st = td["_state"]
                    slices = td["ld_slices"] if code == 0xC8 else td["hq_slices"]
                    tp = du["picture_parse"]["wavelet_transform"]["transform_parameters"]
                    r = self._compare_picture(st, slices, code == 0xC8, v, di, du["picture_parse"]["picture_header"]["picture_number"], tp)
                    di += 1
                    if r:
                        return viol(*r)
                elif code in FRAGMENT_CODES:
                    fp = du["fragment_parse"]
                    if fp["fragment_header"]["fragment_slice_count"] == 0:
                        frag_slices = []
                        frag_pn = fp["fragment_header"]["picture_number"]
                        frag_tp = fp["transform_parameters"]
                        frag_state = None
                    else:
                        fd = fp["fragment_data"]
                        frag_state = fd["_state"]
                        frag_slices.extend(fd["ld_slices"] if code == 0xCC else fd["hq_slices"])
                        if len(frag_slices) == frag_state["slices_x"] * frag_state["slices_y"]:
                            r = self._compare_picture(frag_state, frag_slices, code == 0xCC, v, di, frag_pn, frag_tp)
                            di += 1
                            frag_slices = None
                            if r:
                                return viol(*r)
        if hi != len(v.headers) or di != len(v.decodes):
            return viol("C08/count-mismatch", "deserialiser saw %d headers/%d pictures, validator %d/%d" % (hi, di, len(v.headers), len(v.decodes)))
        stats["pictures_compared"] += di
        return Outcome(OK, events, stats=stats, nontrivial=changed, key=key, ticks=v.reads)

    def _compare_picture(self, st, slices, is_ld, v, di, picture_number, tp_ctx):
        if di >= len(v.decodes):
            return ("C08/picture-count", "deserialiser saw more complete pictures than the validator decoded")
        vd = v.decodes[di]
        for k, val in vd["params"].items():
            if k == "parse_code":
                continue
            mine = picture_number if k == "picture_number" else st.get(k)
            if mine is None or int(mine) != int(val):
                return ("C08/transform-parameter-differs/%s" % k, "picture %d: %s: deserialiser %r validator %r" % (di, k, mine, val))
        try:
            dq = described_quant_matrix(tp_ctx, st)
        except Exception as e:  # noqa: BLE001
            return (exc_sig("C08/quant-matrix-unavailable", e), "no quantisation matrix derivable from the description:\n%s" % short_tb(e))
        if dq != vd["quant_matrix"]:
            return ("C08/quant-matrix-differs", "picture %d: quantisation matrix: deserialiser %r validator %r" % (di, dq, vd["quant_matrix"]))
        try:
            mine = rebuild_transform(st, slices, is_ld, dq)
        except Exception as e:  # noqa: BLE001
            return (exc_sig("C08/rebuild-failed", e), "could not rebuild the transform from the deserialised slices:\n%s" % short_tb(e))
        for comp, k in (("Y", "y"), ("C1", "c1"), ("C2", "c2")):
            if mine[comp] != vd[k]:
                for lvl in vd[k]:
                    for o in vd[k][lvl]:
                        if mine[comp].get(lvl, {}).get(o) != vd[k][lvl][o]:
                            return (
                                "C08/coefficients-differ",
                                "picture %d component %s level %d %s: deserialised+dequantised coefficients differ from the validator's\n deser=%r\n valid=%r"
                                % (di, comp, lvl, o, mine[comp].get(lvl, {}).get(o), vd[k][lvl][o]),
                            )
                return ("C08/coefficients-differ", "picture %d component %s: band structure differs" % (di, comp))
        return None


register(C08())


def _rejected_inside_parse_info(exc):
    """True if the ConformanceError was raised while the validator was
    parsing a parse_info header (so every earlier data unit is complete)."""
    tb = exc.__traceback__
    while tb is not None:
        co = tb.tb_frame.f_code
        if co.co_name == "parse_info" and co.co_filename.replace("\\", "/").endswith("decoder/stream.py"):
            return True
        tb = tb.tb_next
    return False


class C09(AcceptedSpec):
    prop = "C09"
    title = "Every decoded picture is well-formed"
    quick_runs = 24000
    thorough_runs = 800000
    rule = (
        "each run = seeded workload + explicit fault list weighted towards slice payload bits (extreme / dangling "
        "coefficients), length bytes and header fields; only streams the real validator ACCEPTS are judged. Judged on "
        "every picture delivered to the output callback: per-component width/height implied by the decoded header "
        "values and coding mode (harness arithmetic), every sample an int in [0, 2^depth-1], pic_num equal to the four "
        "bytes coded after the data unit's parse_info (read by the harness from the raw bytes), and callbacks == picture "
        "units + zero-slice fragments. non-trivial = accepted although a fault changed the bytes."
    )

    def judge_rejected(self, case, data, changed, v, events, stats):
        # "exactly one picture is output per picture data unit": a stream that
        # is rejected while the NEXT parse_info is being parsed has completed
        # every picture data unit before it, so each of them must already have
        # been output (a decoder may not sit on a finished picture)
        if v.exc is None or not _rejected_inside_parse_info(v.exc):
            return None
        codes = [c for (_o, c, _n, _p) in v.unit_codes]
        whole = sum(1 for c in codes if c in PICTURE_CODES)
        frags = any(c in FRAGMENT_CODES for c in codes)
        stats["rejected-at-parse-info:picture-count-checked"] += 1
        if (len(v.pics) < whole) or (not frags and len(v.pics) != whole):
            return Outcome(
                VIOLATION, events, sig="C09/picture-not-output-before-rejection",
                detail="the validator rejected the stream (%s) while parsing the parse_info after %d completed picture data unit(s), but only %d picture(s) had been output" % (type(v.exc).__name__, whole, len(v.pics)),
                stats=stats, nontrivial=changed, key="rejected-at-parse-info", ticks=v.reads,
            )
        return None

    def judge_accepted(self, case, data, changed, v, events, stats, key):
        def viol(sig, detail):
            return Outcome(VIOLATION, events, sig=sig, detail=detail, stats=stats, nontrivial=changed, key=key, ticks=v.reads)

        coded = []
        hdr_index_at = []
        nh = 0
        for off, code, _n, _p in v.unit_codes:
            code = int(code)
            if code == 0x00:
                nh += 1
            elif code in PICTURE_CODES:
                coded.append(int.from_bytes(data[off + 13 : off + 17], "big"))
                hdr_index_at.append(nh - 1)
            elif code in FRAGMENT_CODES:
                if int.from_bytes(data[off + 19 : off + 21], "big") == 0:
                    coded.append(int.from_bytes(data[off + 13 : off + 17], "big"))
                    hdr_index_at.append(nh - 1)
        if len(v.pics) != len(coded):
            return viol("C09/picture-count", "%d pictures output but the stream holds %d picture units / first fragments" % (len(v.pics), len(coded)))
        for i, (pic, vp, pcm) in enumerate(v.pics):
            if hdr_index_at[i] < 0:
                return viol("C09/no-header", "picture output before any sequence header")
            hd = v.headers[hdr_index_at[i]]
            dims = h_dims(hd["video_parameters"], hd["picture_coding_mode"])
            if pic.get("pic_num") != coded[i]:
                return viol("C09/pic-num", "picture %d: pic_num %r but the stream codes %d" % (i, pic.get("pic_num"), coded[i]))
            for comp, (w, h, depth) in dims.items():
                rows = pic[comp]
                if len(rows) != h or any(len(r) != w for r in rows):
                    return viol("C09/dimensions", "picture %d component %s is %dx%d, header implies %dx%d" % (i, comp, len(rows[0]) if rows else 0, len(rows), w, h))
                top = (1 << depth) - 1
                for r in rows:
                    for s in r:
                        if type(s) is not int or s < 0 or s > top:
                            return viol("C09/sample-range", "picture %d component %s holds sample %r outside [0, %d]" % (i, comp, s, top))
            if set(pic.keys()) != {"Y", "C1", "C2", "pic_num"}:
                return viol("C09/keys", "picture %d has keys %r" % (i, sorted(pic.keys())))
        stats["pictures_checked"] += len(v.pics)
        return Outcome(OK, events, stats=stats, nontrivial=changed, key=key, ticks=v.reads)


register(C09())
