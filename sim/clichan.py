"""Simulation A + C: the command-line tools run in-process on a simulated file
system and clock (C25 validator command, C26 viewer).  DESIGN.md sections 4, 6.
"""

import json
import re
import sys as _sys
from collections import Counter

from sim.core import Outcome, OK, VIOLATION, DISCARD, OutOfScope, exc_sig, short_tb, register
from sim import workloads as W
from sim import faults as F
from sim import receivers as R
from sim import simfs as S
from sim.bytechan import ByteChanSpec, cfg_class, src_of, ACCEPT_KINDS, h_dims

import vc2_conformance.file_format as file_format  # noqa: E402
import vc2_conformance.scripts.vc2_bitstream_validator as validator_mod  # noqa: E402
import vc2_conformance.scripts.vc2_bitstream_viewer as viewer_mod  # noqa: E402


def raw_sizes(dims):
    """bytes per sample: depth rounded up to whole bytes, then to a power of two."""
    out = {}
    for comp, (w, h, d) in dims.items():
        b = (d + 7) // 8
        bps = 1
        while bps < b:
            bps *= 2
        out[comp] = (w, h, d, max(bps, 1))
    return out


def h_read_raw(data, dims, strict=False):
    """Harness-side reader of the planar little-endian raw format: returns
    {"Y": rows, ...} masked to the depth, and the number of bytes consumed.
    With ``strict`` the padding bits above the depth are NOT masked off (a file
    written by the tools is documented to be zero padded)."""
    pos = 0
    pic = {}
    for comp in ("Y", "C1", "C2"):
        w, h, d, bps = raw_sizes(dims)[comp]
        mask = (1 << (8 * bps)) - 1 if strict else (1 << d) - 1
        rows = []
        for _y in range(h):
            row = []
            for _x in range(w):
                row.append(int.from_bytes(data[pos : pos + bps], "little") & mask)
                pos += bps
            rows.append(row)
        pic[comp] = rows
    return pic, pos


# the input file's path as typed by the user (free text: spaces, braces, percent
# signs, quotes, non-ASCII)
INPATHS = ["/sim/in/stream.vc2"] * 5 + ["/sim/in/{streams}/x y.vc2", "/sim/in/100%d%s.vc2", "/sim/in/a'b\"c.vc2", "/sim/in/{0}{}.vc2", "/sim/in/\u00fcn\u00ef \u6f22.vc2", "/sim/in/dir.with.dots/noext", "/sim/in/{cmd} {file} {offset}.vc2"]

PATTERNS = ["picture_%d.raw", "%05d.raw", "a.b_%d.raw", "sub/p%d.raw", "noext_%d", "x%dy.json", "pic-%03d.raw",
            "dir.v1/p_%d", "dir.v1/p_%d.raw", ".hidden_%d", "sub/.h%d.raw", "dir.v1/q%d.tar.raw",
            "picture_%.3d", "p%5.3d.raw", "%03d", "sub/%x.raw", "n_%i", "%d%%.raw", "dir.v1/%.2d"]


def h_stem(name):
    """Path without its extension, by the documented rule (the extension is the
    part after the last dot of the *file name*, leading dots not counting)."""
    d, _, base = name.rpartition("/")
    stripped = base.lstrip(".")
    if "." in stripped:
        base = base[: len(base) - len(stripped)] + stripped.rsplit(".", 1)[0]
    return (d + "/" if d else "") + base


class C25(ByteChanSpec):
    prop = "C25"
    sim = "A+C"
    title = "Validator command reports verdicts and decoded pictures faithfully"
    quick_runs = 18000
    thorough_runs = 600000
    fault_kinds = F.ALL_KINDS + ACCEPT_KINDS
    p_control = 0.15
    components = {
        "real": ByteChanSpec.components["real"]
        + ["vc2_conformance.scripts.vc2_bitstream_validator.main (in-process)", "vc2_conformance.file_format.write"],
        "stub": ByteChanSpec.components["stub"]
        + ["file system + os shim (sim.simfs) bound to the open/os globals of the validator script and file_format", "stdout/stderr captured"],
    }
    rule = (
        "each run = seeded workload + explicit fault list; the faulted bytes are stored in a simulated file system and "
        "vc2-bitstream-validator main() runs in-process on it with a seeded --output pattern and status-line setting; "
        "the library validator is run on the same bytes as the reference. Judged: exit 0 <=> library accepts, exit 2 <=> "
        "library raises ConformanceError, never 3 (or 1); on 0 the simulated FS holds exactly one .raw/.json pair per "
        "callback picture, indexed from 0 in decode order, whose contents (read by a harness-side raw/JSON reader) equal "
        "the callback pictures, video parameters, coding mode and picture numbers; on 2 stdout carries 'Conformance error "
        "at bit offset <int>' and a non-empty explanation. non-trivial = a fault changed the bytes."
    )

    def generate(self, rng, idx, tier):
        case = super(C25, self).generate(rng, idx, tier)
        case["pattern"] = rng.choice(PATTERNS)
        case["status"] = rng.random() < 0.5
        case["verbose"] = rng.choice([0, 0, 1])
        # terminal width the tool sees (it wraps its report to it)
        case["columns"] = rng.choice([None, None, None, None, "10", "20", "40", "79", "80", "300"])
        case["inpath"] = rng.choice(INPATHS)
        # the output directory may still hold the (longer) files of an earlier
        # run under the same names
        case["stale"] = rng.random() < 0.3
        return case

    def shrink(self, case):
        for c in super(C25, self).shrink(case):
            yield c
        if case.get("stale"):
            yield dict(case, stale=False)
        if case["pattern"] != PATTERNS[0]:
            yield dict(case, pattern=PATTERNS[0])
        if case["status"]:
            yield dict(case, status=False)
        if case.get("columns") is not None:
            yield dict(case, columns=None)
        if case.get("inpath", INPATHS[0]) != INPATHS[0]:
            yield dict(case, inpath=INPATHS[0])

    def judge(self, case, clean, data, changed, events, stats):
        def viol(sig, detail):
            return Outcome(VIOLATION, events, sig=sig, detail=detail, stats=stats, nontrivial=changed, key=key, ticks=ticks)

        lib = R.run_validator(data, tap=True)
        ticks = lib.reads
        key = None
        if lib.verdict == "oos":
            stats["discard:out-of-scope"] += 1
            return Outcome(DISCARD, events, stats=stats, ticks=ticks)
        lname = lib.verdict if lib.exc is None else "%s:%s" % (lib.verdict, type(lib.exc).__name__)
        fs = S.SimFS("/sim")
        inpath = case.get("inpath", INPATHS[0])
        fs.put(inpath, data)
        fs.dirs.update({"/sim/out", "/sim/out/sub", "/sim/out/dir.v1"})
        stale = {}
        if case.get("stale"):
            for i in range(3):
                stem = h_stem(("/sim/out/" + case["pattern"]) % (i,))
                stale[stem + ".raw"] = b"\xAA" * 70000
                stale[stem + ".json"] = b'{"stale": "' + b"x" * 5000 + b'"}'
            for pth, content in stale.items():
                fs.put(pth, content)
        argv = [inpath, "--output", "/sim/out/" + case["pattern"]]
        if not case["status"]:
            argv.append("--no-status")
        argv += ["-v"] * case["verbose"]
        rc = exc = None
        import os as _os

        old_cols = _os.environ.get("COLUMNS")
        if case.get("columns") is not None:
            _os.environ["COLUMNS"] = case["columns"]
        else:
            _os.environ.pop("COLUMNS", None)
        with S.installed(fs, {validator_mod: ["open", "os"], file_format: ["open", "os"]}):
            with S.captured_stdio() as (out, err):
                _sys.argv = ["vc2-bitstream-validator"] + argv
                try:
                    rc = validator_mod.main(argv)
                except OutOfScope:
                    rc = "oos"
                except SystemExit as e:
                    rc, exc = "SystemExit(%r)" % (e.code,), e
                except BaseException as e:  # noqa: BLE001
                    rc, exc = "raised", e
                finally:
                    if old_cols is None:
                        _os.environ.pop("COLUMNS", None)
                    else:
                        _os.environ["COLUMNS"] = old_cols
        stdout, stderr = out.getvalue(), err.getvalue()
        events.append(("cli", rc, lname, len(stdout), sorted(fs.files), case.get("columns")))
        stats["rc:%s" % (rc,)] += 1
        key = "%s|%s|%s|rc=%s" % (cfg_class(src_of(case)), self.kinds_of(case), lname, rc)
        if rc == "oos":
            stats["discard:out-of-scope"] += 1
            return Outcome(DISCARD, events, stats=stats, ticks=ticks)
        if exc is not None:
            return viol(exc_sig("C25/main-raised", exc), "validator main() raised instead of returning a status:\n%s" % short_tb(exc))
        if rc == 3 or (lib.verdict == "crash"):
            return viol(
                "C25/internal-error-status/%s" % (type(lib.exc).__name__ if lib.exc else "?"),
                "command exited with %r (library: %s); stderr: %s" % (rc, lname, stderr[-400:]),
            )
        if rc not in (0, 2):
            return viol("C25/unexpected-status/%r" % (rc,), "command exited with %r; stderr: %s" % (rc, stderr[-400:]))
        if (rc == 0) != (lib.verdict == "accept"):
            return viol("C25/verdict-mismatch", "command exited with %r but the library validator says %s" % (rc, lname))
        if "hist" in case and not case["faults"] and all(u.get("lvl", 0) == 0 for u in case["hist"]["units"]):
            # (level 0 only: the reference model knows the levels' ordering
            # rules, not their value constraints, which are real here)
            # for un-faulted data-unit histories the reference model of C01 says
            # whether the stream is conformant: exit 0 exactly when it is
            from sim import unitchan as U

            upool = U.get_pool(case["hist"]["cfg"])
            _d, abstract, _m = U.assemble(upool, case["hist"]["units"])
            reason = U.model_verdict(abstract, upool.hq, upool.pcm, upool.cfg["sx"], upool.cfg["sy"])
            stats["judged-against-reference-model"] += 1
            if (rc == 0) != (reason is None):
                return viol("C25/verdict-differs-from-reference-model", "history %s: command exited with %r but the reference model says %s" % (" ".join(U.unit_repr(u) for u in case["hist"]["units"]), rc, reason or "conformant"))
        outfiles = sorted(p for p in fs.files if p.startswith("/sim/out/"))
        if rc == 2:
            m = re.search(r"Conformance error at bit offset (\d+)\n=+\n\n(.*?)\n\n\nDetails", stdout, re.S)
            if not m or not m.group(2).strip():
                return viol("C25/no-located-explanation", "exit 2 without 'Conformance error at bit offset <int>' + explanation; stdout starts: %r" % stdout[:300])
            # the location printed must be the one the decoder reports for this
            # error (its offending offset, or where it stopped reading)
            try:
                want_off = lib.exc.offending_offset()
            except Exception:  # noqa: BLE001 — C02's business
                want_off = None
            if want_off is None:
                want_off = lib.tell_bits
            if want_off is not None and int(m.group(1)) != want_off:
                return viol("C25/wrong-location", "exit 2 reports bit offset %s but the decoder locates the %s at bit offset %d" % (m.group(1), type(lib.exc).__name__, want_off))
            if "non-conformant bitstream" not in stderr:
                return viol("C25/no-error-line", "exit 2 without the error line on stderr: %r" % stderr[-200:])
            return Outcome(OK, events, stats=stats, nontrivial=changed, key=key, ticks=ticks)
        # rc == 0: the files
        if changed:
            stats["accepted_after_fault"] += 1
        base = "/sim/out/" + case["pattern"]
        expect = []
        for i in range(len(lib.pics)):
            name = base % (i,)
            stem = h_stem(name)
            expect += [stem + ".json", stem + ".raw"]
        # files of an earlier run that this run had no reason to touch may remain
        outfiles = [p_ for p_ in outfiles if p_ in expect or not (p_ in stale and fs.get(p_) == stale[p_])]
        if sorted(expect) != outfiles:
            return viol("C25/file-set", "files written %r, expected %r" % (outfiles, sorted(expect)))
        for i, (pic, vp, pcm) in enumerate(lib.pics):
            jp, rp = expect[2 * i], expect[2 * i + 1]
            try:
                meta = json.loads(fs.get(jp).decode("utf-8"))
            except Exception as e:  # noqa: BLE001
                return viol("C25/metadata-unreadable", "%s is not JSON: %r" % (jp, e))
            want_vp = {k: (int(v) if not isinstance(v, bool) else v) for k, v in vp.items()}
            if meta.get("video_parameters") != want_vp or meta.get("picture_coding_mode") != int(pcm) or str(meta.get("picture_number")) != str(pic["pic_num"]):
                return viol("C25/metadata-differs", "picture %d metadata %r != decoder output (vp=%r pcm=%r num=%r)" % (i, meta, want_vp, int(pcm), pic["pic_num"]))
            dims = h_dims(vp, pcm)
            raw = fs.get(rp)
            got, used = h_read_raw(raw, dims, strict=True)
            if used != len(raw):
                return viol("C25/raw-size", "picture %d raw file is %d bytes, format implies %d" % (i, len(raw), used))
            for comp in ("Y", "C1", "C2"):
                if got[comp] != pic[comp]:
                    return viol("C25/raw-content", "picture %d component %s on disk differs from the decoder's output" % (i, comp))
        stats["pictures_on_disk_checked"] += len(lib.pics)
        if "No errors found in bitstream" not in stdout:
            return viol("C25/no-success-message", "exit 0 without the success message")
        return Outcome(OK, events, stats=stats, nontrivial=changed, key=key, ticks=ticks)

    def extra_evidence(self, merged):
        st = merged["stats"]
        return {
            "faults_injected": {k[6:]: v for k, v in st.items() if k.startswith("fault:")},
            "exit_statuses": {k[3:]: v for k, v in st.items() if k.startswith("rc:")},
        }


register(C25())


# --------------------------------------------------------------------------
# C26 — the viewer
# --------------------------------------------------------------------------

VIEW_OPTS = [
    ["--hide-slice"],
    ["--hide", "slice"],
    ["--show", "parse_info"],
    ["--show", "sequence_header", "--show", "parse_info"],
    ["-v"],
    ["-vv"],
    ["--show-internal-state"],
    ["--ignore-parse-info-prefix"],
    ["--from-offset", "104"],
    ["--to-offset", "200"],
    ["--offset", "120", "--after-context", "64"],
    ["--from-offset", "-200"],
    ["--no-status"],
]


class C26(ByteChanSpec):
    prop = "C26"
    sim = "A+C"
    title = "Bitstream viewer never reports an internal error"
    quick_runs = 12000
    thorough_runs = 400000
    components = {
        "real": ByteChanSpec.components["real"][:2] + ["vc2_conformance.scripts.vc2_bitstream_viewer.main (in-process)", "bitstream MonitoredDeserialiser"],
        "stub": ByteChanSpec.components["stub"]
        + ["file system + os shim bound to the viewer's open/os globals", "simulated clock (sim.simfs.TimeShim) bound to the viewer's time global", "stdout/stderr captured"],
    }
    assumptions = ByteChanSpec.assumptions + [
        "scope is decided by a pre-scan of the same bytes with the real MonitoredDeserialiser and the scope monitor",
        "the deciding arm uses default display options only (as the statement says); the option-sampling arm is observe-only",
    ]
    rule = (
        "each run = seeded workload (or random bytes) + explicit fault list, stored in the simulated FS; the viewer's "
        "main() runs in-process with its clock replaced by a seeded simulated clock (zero, sub-interval, forward and "
        "backward jumps). Deciding arm: default options; judged: main() returns 0, 2, 3 or 4, never 255, and no "
        "exception escapes. Observe-only arm (25% of runs): a sampled display option; outcomes are counted, never "
        "judged. non-trivial = a fault changed the bytes."
    )

    def generate(self, rng, idx, tier):
        case = super(C26, self).generate(rng, idx, tier)
        case["opts"] = rng.choice(VIEW_OPTS) if rng.random() < 0.25 else []
        if "sweep" in case:
            case["opts"] = []  # the enumeration arm always decides (default options)
        elif idx % 100 == 37:
            # environment arm: the real command in a FRESH interpreter (module
            # constants are computed at import) under a seeded environment —
            # terminal size, locale, TERM — with default options
            case["opts"] = []
            case["env"] = {
                "COLUMNS": rng.choice(["10", "20", "40", "47", "48", "49", "60", "79", "80", "132", "500", ""]),
                "LINES": rng.choice(["1", "24", "50", ""]),
                "TERM": rng.choice(["dumb", "xterm", "vt100", ""]),
                "LC_ALL": rng.choice(["C", "POSIX", "C.UTF-8", ""]),
            }
        case["clock"] = [rng.choice([0.0, 0.0, 0.001, 0.05, 0.2, 1.0, 3600.0, -5.0, -3600.0]) for _ in range(rng.randrange(1, 6))]
        case["interval"] = rng.choice([0.1, 0.1, 0.0, 0.001, 10.0])
        case["inpath"] = rng.choice(INPATHS)
        return case

    def shrink(self, case):
        for c in super(C26, self).shrink(case):
            yield c
        if case["clock"] != [0.0]:
            yield dict(case, clock=[0.0])
        if case["interval"] != 0.1:
            yield dict(case, interval=0.1)
        if case.get("env"):
            for k in sorted(case["env"]):
                if case["env"][k] != "":
                    yield dict(case, env=dict(case["env"], **{k: ""}))

    def judge(self, case, clean, data, changed, events, stats):
        pre = R.run_deserialiser(data)
        if pre.verdict == "oos":
            stats["discard:out-of-scope"] += 1
            return Outcome(DISCARD, events, stats=stats, ticks=pre.reads)
        if pre.verdict == "hang":
            return Outcome(VIOLATION, events, sig="C26/deserialiser-does-not-terminate", detail="the bitstream deserialiser the viewer is built on issued %d read() calls on a %d-byte stream without finishing (step budget exceeded)" % (pre.reads, len(data)), stats=stats, nontrivial=changed, ticks=pre.reads)
        if case.get("env") is not None:
            return self.judge_env(case, data, changed, pre, events, stats)
        fs = S.SimFS("/sim")
        inpath = case.get("inpath", INPATHS[0])
        fs.put(inpath, data)
        clock = S.TimeShim(1000.0, case["clock"])
        argv = [inpath] + list(case["opts"])
        rc = exc = None
        old_interval = viewer_mod.STATUS_LINE_UPDATE_INTERVAL
        viewer_mod.STATUS_LINE_UPDATE_INTERVAL = case["interval"]
        try:
            with S.installed(fs, {viewer_mod: ["open", "os", "time"]}, clock=clock):
                with S.captured_stdio() as (out, err):
                    _sys.argv = ["vc2-bitstream-viewer"] + argv
                    try:
                        rc = viewer_mod.main(argv)
                    except SystemExit as e:
                        rc, exc = "SystemExit(%r)" % (e.code,), e
                    except BaseException as e:  # noqa: BLE001
                        rc, exc = "raised", e
        finally:
            viewer_mod.STATUS_LINE_UPDATE_INTERVAL = old_interval
        stdout = out.getvalue()
        events.append(("viewer", rc, pre.verdict, len(stdout), clock.calls))
        observe = bool(case["opts"])
        stats[("observe_rc:%s" if observe else "rc:%s") % (rc,)] += 1
        stats["clock_reads"] += clock.calls
        stats["simulated_seconds"] += int(clock.simulated_span)
        key = "%s|%s|%s|rc=%s|%s" % (cfg_class(src_of(case)), self.kinds_of(case), pre.verdict, rc, "opt" if observe else "default")
        if observe:
            return Outcome(OK, events, stats=stats, nontrivial=False, key=key, ticks=pre.reads)
        if exc is not None:
            return Outcome(VIOLATION, events, sig=exc_sig("C26/main-raised", exc), detail="viewer main() raised:\n%s" % short_tb(exc), stats=stats, nontrivial=changed, key=key, ticks=pre.reads)
        if rc not in (0, 2, 3, 4):
            return Outcome(
                VIOLATION, events, sig="C26/status-%r" % (rc,),
                detail="viewer exited with status %r under default options; stderr tail: %s" % (rc, err.getvalue()[-500:]),
                stats=stats, nontrivial=changed, key=key, ticks=pre.reads,
            )
        return Outcome(OK, events, stats=stats, nontrivial=changed, key=key, ticks=pre.reads)

    def judge_env(self, case, data, changed, pre, events, stats):
        import os
        import shutil
        import subprocess
        import tempfile

        from sim.core import PY, REPO

        scratch = tempfile.mkdtemp(prefix="vc2_c26_", dir="/var/tmp")
        try:
            path = os.path.join(scratch, "stream.vc2")
            with open(path, "wb") as f:
                f.write(data)
            env = {k: v for k, v in os.environ.items() if k not in ("COLUMNS", "LINES", "TERM", "LC_ALL", "LANG", "VERIF_NO_REEXEC")}
            env.update({k: v for k, v in case["env"].items() if v != ""})
            env["PYTHONHASHSEED"] = "0"
            boot = "import sys; sys.path.insert(0, %r); from vc2_conformance.scripts.vc2_bitstream_viewer import main; sys.exit(main(sys.argv[1:]))" % REPO
            try:
                p = subprocess.run([PY, "-c", boot, path], env=env, stdout=subprocess.PIPE, stderr=subprocess.PIPE, timeout=600, cwd=scratch)
                rc, err = p.returncode, p.stderr.decode(errors="replace")
            except subprocess.TimeoutExpired:
                rc, err = "timeout", ""
        finally:
            shutil.rmtree(scratch, ignore_errors=True)
        events.append(("viewer-env", rc, sorted(case["env"].items())))
        stats["env_rc:%s" % (rc,)] += 1
        stats["runs:environment-arm"] += 1
        key = "env|COLUMNS=%s|rc=%s" % (case["env"].get("COLUMNS"), rc)
        if rc not in (0, 2, 3, 4):
            return Outcome(
                VIOLATION, events, sig="C26/env/status-%r" % (rc,),
                detail="viewer (fresh interpreter, environment %r, default options) exited with status %r; stderr tail: %s" % (case["env"], rc, err[-500:]),
                stats=stats, nontrivial=True, key=key, ticks=pre.reads,
            )
        return Outcome(OK, events, stats=stats, nontrivial=True, key=key, ticks=pre.reads)

    def extra_evidence(self, merged):
        st = merged["stats"]
        return {
            "environment_arm_exit_statuses": {k[7:]: v for k, v in st.items() if k.startswith("env_rc:")},
            "faults_injected": {k[6:]: v for k, v in st.items() if k.startswith("fault:")},
            "exit_statuses_default_options": {k[3:]: v for k, v in st.items() if k.startswith("rc:")},
            "exit_statuses_observe_only_arm": {k[11:]: v for k, v in st.items() if k.startswith("observe_rc:")},
            "simulated_clock": {"reads": st.get("clock_reads", 0), "simulated_seconds_covered": st.get("simulated_seconds", 0)},
        }


register(C26())
