"""Deterministic simulation with fault injection for bbc/vc2_conformance.

See /verif/DESIGN.md.  Every module here imports ``vc2_conformance`` from
/repo's *current working tree* (asserted in ``sim.core.ensure_repo``).
"""
