"""Simulation B — data-unit channel and sequence histories (DESIGN.md section 5).

Sender: the real encoder + serialiser produce conformant sequences which are
cut into data-unit blobs.  Channel: emits a *history* of units (drops,
duplicates, reorderings, substitutions, insertions, missing end_of_sequence)
with per-unit framing choices (next/previous parse offsets, picture numbers).
Receiver: the real validating decoder on a SimFile.  Oracle: an independent
reference model (``model_verdict``) written from the property statement and the
cited clauses of ST 2042-1 — not from the decoder source.
"""

from collections import Counter, OrderedDict

from sim.core import Spec, Outcome, OK, VIOLATION, DISCARD, exc_sig, short_tb, shrink_list, register, derive_seed
from sim import workloads as W
from sim import faults as F
from sim import receivers as R

from vc2_conformance.level_constraints import LEVEL_CONSTRAINTS  # noqa: E402
from vc2_conformance.constraint_table import AnyValue  # noqa: E402
from vc2_conformance.encoder import make_sequence  # noqa: E402
from vc2_conformance.encoder.sequence_header import iter_sequence_headers  # noqa: E402
from vc2_conformance.bitstream import Stream, Sequence, DataUnit, ParseInfo  # noqa: E402
from vc2_data_tables import ParseCodes  # noqa: E402

PREFIX = b"BBCD"
SEQ_HDR, EOS, AUX, PAD = 0x00, 0x10, 0x20, 0x30
LD_PIC, HQ_PIC, LD_FRAG, HQ_FRAG = 0xC8, 0xE8, 0xCC, 0xEC
NPICS = 4
LEVELS = [0, 1, 2, 3, 4, 5, 6, 7, 64, 65, 66]

def install_permissive_level_values():
    R.use_permissive_levels()


# --------------------------------------------------------------------------
# Unit pool (sender side; real encoder + serialiser)
# --------------------------------------------------------------------------


def _cut(data):
    fm = F.FieldMap(data)
    if not fm.complete:
        raise W.WorkloadError("clean stream does not deserialise")
    return [(u["code"], data[u["start"] + 13 : u["end"]]) for u in fm.units]


def _force_version(seq, mv, strip_extended):
    for du in seq["data_units"]:
        if "sequence_header" in du:
            du["sequence_header"]["parse_parameters"]["major_version"] = mv
        if strip_extended:
            tp = None
            if "picture_parse" in du:
                tp = du["picture_parse"]["wavelet_transform"]["transform_parameters"]
            elif "fragment_parse" in du and "transform_parameters" in du["fragment_parse"]:
                tp = du["fragment_parse"]["transform_parameters"]
            if tp is not None and "extended_transform_parameters" in tp:
                del tp["extended_transform_parameters"]


class Pool(object):
    def __init__(self, cfg):
        self.cfg = dict(cfg, level=cfg.get("real_level", 0), nseq=1, extras=None, npics=NPICS, first_pic_num=0)
        c = self.cfg
        self.hq = c["profile"] == 3
        self.asym = c["wavelet"] != c["wavelet_ho"] or c["depth_ho"] != 0
        self.pic_code = HQ_PIC if self.hq else LD_PIC
        self.frag_code = HQ_FRAG if self.hq else LD_FRAG
        self.total_slices = c["sx"] * c["sy"]
        self.pcm = c["pcm"]
        self.real = bool(cfg.get("real_level"))
        self.npics = 2 if self.real else NPICS
        self.cfg["npics"] = self.npics
        self.pictures = {}
        self.alt_pictures = {}  # same pictures coded with other transform parameters (cfg["mix"])
        self.alt_asym = False
        self.fragments = None
        self.ld_sizes = None
        self._headers = {}
        self._sh_variants = None
        try:
            with R.level_mode(self.real):
                self._build()
        except W.WorkloadError:
            raise
        except Exception as e:  # encoder/serialiser refused: precondition
            raise W.WorkloadError("%s: %s" % (type(e).__name__, e))

    def _seq(self, frag):
        cf = W.build_codec_features(dict(self.cfg, frag=frag))
        return cf, make_sequence(cf, W.make_pictures(self.cfg))

    def _build(self):
        low = 2 if self.hq else 1
        for cls in ("v3", "pre3"):
            if cls == "pre3" and self.asym:
                continue
            _cf, seq = self._seq(0)
            _force_version(seq, 3 if cls == "v3" else low, cls == "pre3")
            units = _cut(W.serialise([seq]))
            self.pictures[cls] = [b for (code, b) in units if code in (LD_PIC, HQ_PIC)]
            if len(self.pictures[cls]) != self.npics:
                raise W.WorkloadError("unexpected picture count")
        mix = self.cfg.get("mix")
        if mix and not self.real:
            c2 = dict(self.cfg)
            c2.update(mix)
            c2["frag"] = 0
            if not self.cfg["lossless"]:
                c2["picture_bytes"] = max(self.cfg["picture_bytes"], 4 * mix["sx"] * mix["sy"] + self.cfg["picture_bytes"])
            self.alt_asym = mix["wavelet"] != mix["wavelet_ho"] or mix["depth_ho"] != 0
            for cls in ("v3", "pre3"):
                if cls == "pre3" and (self.alt_asym or self.asym):
                    continue
                try:
                    seq = make_sequence(W.build_codec_features(c2), W.make_pictures(self.cfg))
                    _force_version(seq, 3 if cls == "v3" else low, cls == "pre3")
                    units = _cut(W.serialise([seq]))
                    pics = [b for (code, b) in units if code in (LD_PIC, HQ_PIC)]
                    if len(pics) == self.npics:
                        self.alt_pictures[cls] = pics
                except Exception:  # noqa: BLE001 — the sender refused this variant
                    pass
        if self.cfg["frag"]:
            _cf, seq = self._seq(self.cfg["frag"])
            _force_version(seq, 3, False)
            fdata = W.serialise([seq])
            units = _cut(fdata)
            if not self.hq:
                # low-delay slices have position-dependent sizes (13.5.3.2):
                # slice n holds ((n+1)*num)//den - (n*num)//den bytes.  Needed
                # to tell whether a fragment body still frames when the channel
                # rewrites its slice offsets (composition rule).
                from sim import faults as _F

                fm = _F.field_map(fdata)
                num = [f.value for f in fm.fields if f.name == "slice_bytes_numerator"]
                den = [f.value for f in fm.fields if f.name == "slice_bytes_denominator"]
                if num and den and den[0]:
                    self.ld_sizes = [((n + 1) * num[0]) // den[0] - (n * num[0]) // den[0] for n in range(self.total_slices)]
            pics = []
            for code, b in units:
                if code in (LD_FRAG, HQ_FRAG):
                    count = int.from_bytes(b[6:8], "big")
                    if count == 0:
                        pics.append([])
                        pics[-1].append((b, 0, 0, 0))
                    else:
                        pics[-1].append((b, count, int.from_bytes(b[8:10], "big"), int.from_bytes(b[10:12], "big")))
            if len(pics) != self.npics:
                raise W.WorkloadError("unexpected fragmented picture count")
            self.fragments = pics

    def _variants(self):
        if self._sh_variants is None:
            cf = W.build_codec_features(dict(self.cfg, frag=0, level=self.cfg.get("real_level", 0)))
            it = iter_sequence_headers(cf)
            v0 = next(it)
            v1 = next(it, None)
            cf2 = W.build_codec_features(dict(self.cfg, frag=0, level=self.cfg.get("real_level", 0)))
            cf2["video_parameters"]["frame_rate_numer"] = 2
            v2 = next(iter_sequence_headers(cf2), None)
            self._sh_variants = [v0, v1, v2]
        return self._sh_variants

    def header(self, variant, mv, lvl):
        """-> (body bytes, feature version of the coded presets) or None"""
        key = (variant, mv, lvl)
        if key not in self._headers:
            with R.level_mode(self.real):
                sh = self._variants()[variant]
            if sh is None:
                self._headers[key] = None
            else:
                import copy

                sh = copy.deepcopy(sh)
                sh["parse_parameters"]["major_version"] = mv
                sh["parse_parameters"]["level"] = lvl
                seq = Sequence(
                    data_units=[
                        DataUnit(parse_info=ParseInfo(parse_code=ParseCodes.sequence_header), sequence_header=sh),
                        DataUnit(parse_info=ParseInfo(parse_code=ParseCodes.end_of_sequence)),
                    ]
                )
                data = W.serialise([seq])
                body = _cut(data)[0][1]
                ctx, exc = R.run_plain_deserialiser(data)
                if exc is not None:
                    raise W.WorkloadError("header does not deserialise: %r" % (exc,))
                self._headers[key] = (body, header_feature_version(ctx["sequences"][0]["data_units"][0]["sequence_header"]))
        return self._headers[key]


def header_feature_version(sh):
    """Minimum major_version the presets coded in a sequence header require
    (11.2.2), read by the harness from the deserialised fields."""
    v = 1
    vp = sh["video_parameters"]
    fr = vp["frame_rate"]
    if fr["custom_frame_rate_flag"] and fr["index"] > 11:
        v = 3
    sr = vp["signal_range"]
    if sr["custom_signal_range_flag"] and sr["index"] > 4:
        v = 3
    cs = vp["color_spec"]
    if cs["custom_color_spec_flag"]:
        if cs["index"] > 4:
            v = 3
        if cs["index"] == 0:
            cp = cs["color_primaries"]
            if cp["custom_color_primaries_flag"] and cp["index"] > 3:
                v = 3
            cm = cs["color_matrix"]
            if cm["custom_color_matrix_flag"] and cm["index"] > 3:
                v = 3
            tf = cs["transfer_function"]
            if tf["custom_transfer_function_flag"] and tf["index"] > 3:
                v = 3
    return v


_POOLS = OrderedDict()


def get_pool(cfg):
    key = repr(sorted((k, v) for k, v in cfg.items() if k not in ("level", "nseq", "extras", "npics", "first_pic_num")))
    p = _POOLS.get(key)
    if p is None:
        try:
            p = Pool(cfg)
        except W.WorkloadError as e:
            p = e
        _POOLS[key] = p
        while len(_POOLS) > 512:
            _POOLS.popitem(last=False)
    if isinstance(p, W.WorkloadError):
        raise p
    return p


# --------------------------------------------------------------------------
# Assembling a history into bytes + the abstract view the model sees
# --------------------------------------------------------------------------


class AUnit(object):
    """What the reference model is told about one unit."""

    __slots__ = ("t", "code", "length", "nx", "pv", "num", "count", "x", "y", "hid", "mv", "lvl", "hv", "feat")


def assemble(pool, units):
    """units: explicit JSON descriptors.  Returns (bytes, [AUnit], misframed).

    ``misframed`` is True when the history breaks the composition rule
    (DESIGN section 5): a body would be parsed under a governing header it was
    not coded for, or a padding/auxiliary unit (whose next_parse_offset *is*
    its framing) carries a wrong offset.  Such histories are discarded: the
    expected verdict would depend on how garbage happens to parse."""
    out = bytearray()
    misframed = False
    abstract = []
    governing_cls = None
    at_seq_start = True
    lengths = []
    bodies = []
    for u in units:
        t = u["t"]
        a = AUnit()
        a.t = t
        a.num = a.count = a.x = a.y = a.hid = a.mv = a.lvl = a.hv = None
        a.feat = 1
        if t == "H":
            h = pool.header(u["var"], u["mv"], u["lvl"])
            if h is None:
                h = pool.header(0, u["mv"], u["lvl"])
                a.hid = (0, u["mv"], u["lvl"])
            else:
                a.hid = (u["var"], u["mv"], u["lvl"])
            body, a.hv = h
            a.code, a.mv, a.lvl = SEQ_HDR, u["mv"], u["lvl"]
            if at_seq_start:
                governing_cls = "v3" if u["mv"] >= 3 else "pre3"
        elif t == "P":
            cls = governing_cls or "v3"
            src = pool.alt_pictures if (u.get("alt") and pool.alt_pictures) else pool.pictures
            is_alt = src is pool.alt_pictures
            if cls not in src:
                cls = "v3"
                misframed = True
            body = bytearray(src[cls][u["i"] % pool.npics])
            body[0:4] = (u["num"] & 0xFFFFFFFF).to_bytes(4, "big")
            a.code = u.get("code", pool.pic_code)
            a.num = u["num"] & 0xFFFFFFFF
            a.feat = 3 if (pool.alt_asym if is_alt else pool.asym) else 1
        elif t == "F":
            frs = pool.fragments[u["pic"] % pool.npics]
            b, a.count, a.x, a.y = frs[u["j"] % len(frs)]
            body = bytearray(b)
            body[0:4] = (u["num"] & 0xFFFFFFFF).to_bytes(4, "big")
            if "xy" in u and a.count:
                # channel fault on the fragment's slice offsets (the body's
                # slices stay where they are; a conformant receiver must reject
                # before reading them)
                ox, oy = a.x, a.y
                a.x, a.y = u["xy"][0] & 0xFFFF, u["xy"][1] & 0xFFFF
                body[8:10] = a.x.to_bytes(2, "big")
                body[10:12] = a.y.to_bytes(2, "big")
                if not pool.hq and (a.x, a.y) != (ox, oy):
                    # composition rule: a low-delay body only frames at slice
                    # positions whose sizes equal those it was coded for; if the
                    # rewritten offsets happen to be acceptable, a receiver reads
                    # the body at the new position
                    sxn = pool.cfg["sx"]
                    i0, i1 = oy * sxn + ox, a.y * sxn + a.x
                    sz = pool.ld_sizes
                    if sz is None or a.x >= sxn or i1 + a.count > len(sz) or sz[i0 : i0 + a.count] != sz[i1 : i1 + a.count]:
                        if a.x < sxn and a.y < pool.cfg["sy"]:
                            misframed = True
            a.code = u.get("code", pool.frag_code)
            a.num = u["num"] & 0xFFFFFFFF
            a.feat = 3
        elif t in ("A", "X"):
            body = bytes((u.get("fill", 0) + 7 * i) & 0xFF for i in range(u["n"]))
            a.code = AUX if t == "A" else PAD
            if u.get("nx", "ok") != "ok":
                misframed = True
        elif t == "E":
            body = b""
            a.code = EOS
        else:
            raise ValueError(t)
        at_seq_start = t == "E"
        if t == "E":
            governing_cls = None
        bodies.append(bytes(body))
        lengths.append(13 + len(body))
        abstract.append(a)
    for k, (u, a) in enumerate(zip(units, abstract)):
        true_next = lengths[k]
        if a.t == "E":
            default_nx = 0
        else:
            default_nx = true_next
        nx = default_nx if u.get("nx", "ok") == "ok" else int(u["nx"])
        # the first unit of a sequence has previous offset 0
        first = k == 0 or abstract[k - 1].t == "E"
        default_pv = 0 if first else lengths[k - 1]
        pv = default_pv if u.get("pv", "ok") == "ok" else int(u["pv"])
        a.length, a.nx, a.pv = lengths[k], nx & 0xFFFFFFFF, pv & 0xFFFFFFFF
        out += PREFIX + bytes([a.code]) + a.nx.to_bytes(4, "big") + a.pv.to_bytes(4, "big") + bodies[k]
    return bytes(out), abstract, misframed


# --------------------------------------------------------------------------
# The reference model (from the statement and ST 2042-1; NOT from the decoder)
# --------------------------------------------------------------------------


def level_rule(lvl, codes):
    """(C.3 / ST 2042-2 level documents) data-unit ordering rule of a level,
    as Python predicates independent of vc2_conformance.symbol_re.
    ``codes`` = parse codes of the whole sequence, header first, EOS last."""
    if lvl == 0:
        return None
    if 1 <= lvl <= 7:
        has_pic = any(c in (LD_PIC, HQ_PIC) for c in codes)
        has_frag = any(c in (LD_FRAG, HQ_FRAG) for c in codes)
        if has_pic and has_frag:
            return "level-ordering: level %d: pictures and fragments mixed in one sequence" % lvl
        return None
    if lvl in (64, 65, 66):
        want = LD_PIC if lvl in (64, 65) else HQ_PIC
        body = codes[:-1]
        if len(body) % 2:
            return "level-ordering: level %d: sequence is not (header picture)* end" % lvl
        for k in range(0, len(body), 2):
            if body[k] != SEQ_HDR or body[k + 1] != want:
                return "level-ordering: level %d: sequence is not (header picture)* end" % lvl
        return None
    return "unknown level"


def check_sequence(seq, ended, profile_hq, pcm, slices_x, total_slices):
    if not ended:
        return "sequence does not end with end_of_sequence before the stream ends"
    h = seq[0]
    if h.t != "H":
        return "sequence does not start with a sequence header (10.4.1)"
    # --- parse offsets (10.5.1)
    for k, u in enumerate(seq):
        if 1 <= u.nx <= 12:
            return "next_parse_offset inside the parse_info header"
        if u.t == "E":
            if u.nx != 0:
                return "end_of_sequence with non-zero next_parse_offset"
        elif u.t in ("P", "F"):
            if u.nx not in (0, u.length):
                return "wrong next_parse_offset on a picture/fragment"
        else:
            if u.nx != u.length:
                return "missing/wrong next_parse_offset on a non-picture unit"
        want_pv = 0 if k == 0 else seq[k - 1].length
        if u.pv != want_pv:
            return "wrong previous_parse_offset"
    # --- repeated sequence headers byte-identical (11.1)
    for u in seq[1:]:
        if u.t == "H" and u.hid != h.hid:
            return "sequence header differs from the first one of the sequence"
    # --- profile permits the parse codes (C.2)
    allowed = (HQ_PIC, HQ_FRAG) if profile_hq else (LD_PIC, LD_FRAG)
    for u in seq:
        if u.t in ("P", "F") and u.code not in allowed:
            return "parse code not allowed by the profile"
    # --- major_version (11.2.2): exactly the minimum the features need
    need = max(1, 2 if profile_hq else 1, h.hv)
    npictures = 0
    for u in seq:
        if u.t == "F":
            need = max(need, 3)
        if u.t == "P" or (u.t == "F" and u.count == 0):
            need = max(need, u.feat)
            npictures += 1
    if h.mv < need:
        return "major_version too low for the features used"
    if h.mv > need and not (npictures == 0 and h.mv == 3):
        return "major_version higher than the features used require"
    # --- picture numbers (12.2, 14.2), fields (10.4.3), fragments (14)
    last_num = None
    pics = 0
    remaining = 0
    received = 0
    cur_num = None
    for u in seq:
        if u.t == "P":
            if remaining:
                return "picture interleaved with an in-progress fragmented picture"
        if u.t == "P" or (u.t == "F" and u.count == 0):
            if u.t == "F" and remaining:
                return "fragmented picture restarted before it was complete"
            if last_num is not None and u.num != (last_num + 1) & 0xFFFFFFFF:
                return "picture numbers not consecutive"
            if pcm == 1 and pics % 2 == 0 and u.num % 2:
                return "first field of a frame has an odd picture number"
            last_num = u.num
            pics += 1
            if u.t == "F":
                remaining, received, cur_num = total_slices, 0, u.num
        elif u.t == "F":
            if remaining == 0:
                return "fragment with slices but no fragmented picture in progress"
            if u.num != cur_num:
                return "picture number changed inside a fragmented picture"
            if u.count > remaining:
                return "too many slices in fragmented picture"
            if (u.x, u.y) != (received % slices_x, received // slices_x):
                return "fragment slices not contiguous"
            received += u.count
            remaining -= u.count
    if remaining:
        return "sequence ends inside a fragmented picture"
    if pcm == 1 and pics % 2:
        return "odd number of fields in the sequence"
    # --- level's data-unit ordering
    r = level_rule(h.lvl, [u.code for u in seq])
    if r:
        return r
    return None


def model_verdict(abstract, profile_hq, pcm, slices_x, slices_y):
    """Returns None (ACCEPT) or a reason string (REJECT)."""
    i, n = 0, len(abstract)
    while i < n:
        j = i
        while j < n and abstract[j].t != "E":
            j += 1
        ended = j < n
        seq = abstract[i : j + 1] if ended else abstract[i:]
        r = check_sequence(seq, ended, profile_hq, pcm, slices_x, slices_x * slices_y)
        if r:
            return r
        i = j + 1
    return None


# --------------------------------------------------------------------------
# History generation (the channel)
# --------------------------------------------------------------------------


def minimal_version(pool, uses_frag, header_hv=1, uses_alt=False):
    v = 2 if pool.hq else 1
    if uses_frag or pool.asym or (uses_alt and pool.alt_asym):
        v = 3
    return max(v, header_hv)


def template_sequence(rng, pool, lvl, force_frag=None):
    """A conformant sequence for the pool's configuration and the level (as far
    as the configuration allows), as a list of unit descriptors without numbers."""
    can_frag = pool.fragments is not None
    fam = "fixed" if lvl >= 64 else "general"
    units = []
    if fam == "fixed":
        n = rng.choice([0, 1, 2, 2, 3, 4])
        if pool.pcm == 1:
            n -= n % 2
        for k in range(n):
            u = {"t": "P", "i": k}
            if pool.alt_pictures and rng.random() < 0.4:
                u["alt"] = True
            units += [{"t": "H"}, u]
        if n == 0:
            pass
        units.append({"t": "E"})
        uses_frag = False
        return units, uses_frag
    uses_frag = can_frag and (force_frag if force_frag is not None else rng.random() < 0.6)
    mixed = lvl == 0 and can_frag and rng.random() < 0.3
    n = rng.choice([0, 1, 1, 2, 2, 3, 4])
    if mixed:
        n = max(n, rng.choice([2, 3, 3, 4]))
    if pool.pcm == 1:
        n -= n % 2
    units.append({"t": "H"})
    for k in range(n):
        if rng.random() < 0.2:
            units.append({"t": rng.choice(["H", "A", "X"])})
        frag_this = uses_frag if not mixed else rng.random() < 0.5
        if frag_this:
            nf = len(pool.fragments[k % pool.npics])
            for j in range(nf):
                units.append({"t": "F", "pic": k, "j": j})
                if j < nf - 1 and rng.random() < 0.1:
                    units.append({"t": rng.choice(["A", "X", "H"])})
        else:
            u = {"t": "P", "i": k}
            if pool.alt_pictures and rng.random() < 0.4:
                u["alt"] = True  # same picture, other transform parameters
            units.append(u)
    if rng.random() < 0.2:
        units.append({"t": rng.choice(["A", "X", "H"])})
    units.append({"t": "E"})
    return units, (uses_frag or mixed)


def fill_defaults(rng, units, var, mv, lvl):
    for u in units:
        if u["t"] == "H":
            u.setdefault("var", var)
            u.setdefault("mv", mv)
            u.setdefault("lvl", lvl)
        if u["t"] in ("A", "X"):
            u.setdefault("n", rng.choice([0, 0, 1, 2, 5, 13]))
            u.setdefault("fill", rng.randrange(256))


def renumber(units, n0, pcm):
    """Repair pass: consecutive picture numbers from n0 over pictures and first
    fragments of each sequence; continuation fragments repeat the number."""
    num = n0
    cur = n0
    fresh = True
    for u in units:
        if u["t"] == "E":
            fresh = True
            continue
        if u["t"] == "P" or (u["t"] == "F" and u.get("j", 0) == 0):
            if fresh:
                num = n0
                fresh = False
            u["num"] = num & 0xFFFFFFFF
            cur = u["num"]
            num += 1
        elif u["t"] == "F":
            u["num"] = cur & 0xFFFFFFFF


N0_CHOICES = [0, 0, 2, 1000, (1 << 32) - 2, (1 << 32) - 4, 7, 1]


def _pick(rng, n):
    """Index of the unit to edit: mostly an interior one, so that the edit
    lands inside in-flight state rather than on the first/last unit."""
    if n >= 3 and rng.random() < 0.75:
        return rng.randrange(1, n - 1)
    return rng.randrange(n)


def structural_edit(rng, pool, units, var, mv, lvl):
    if not units:
        return "none"
    kind = rng.choice(["drop", "dup", "swap", "move", "insert", "insert", "trunc", "subst"])
    n = len(units)
    if kind == "drop":
        del units[_pick(rng, n)]
    elif kind == "dup":
        k = _pick(rng, n)
        units.insert(k + 1, dict(units[k]))
    elif kind == "swap" and n >= 2:
        k = min(_pick(rng, n), n - 2)
        units[k], units[k + 1] = units[k + 1], units[k]
    elif kind == "move" and n >= 2:
        u = units.pop(_pick(rng, n))
        units.insert(_pick(rng, len(units) + 1), u)
    elif kind == "insert":
        units.insert(max(1, _pick(rng, n + 1)) if rng.random() < 0.8 else 0, random_unit(rng, pool, var, mv, lvl))
    elif kind == "trunc":
        del units[rng.randrange(max(0, n - 3), n) :]
    elif kind == "subst":
        units[_pick(rng, n)] = random_unit(rng, pool, var, mv, lvl)
    return kind


def random_unit(rng, pool, var, mv, lvl):
    r = rng.random()
    if r < 0.25:
        # a sequence header: same, alternative encoding, different values,
        # other version or other level
        which = rng.random()
        if which < 0.4:
            return {"t": "H", "var": var, "mv": mv, "lvl": lvl}
        if which < 0.6:
            return {"t": "H", "var": (var + 1) % 3, "mv": mv, "lvl": lvl}
        if which < 0.8:
            return {"t": "H", "var": var, "mv": rng.choice([1, 2, 3]), "lvl": lvl}
        return {"t": "H", "var": var, "mv": mv, "lvl": rng.choice(LEVELS)}
    if r < 0.45:
        u = {"t": "P", "i": rng.randrange(pool.npics)}
        if pool.alt_pictures and rng.random() < 0.3:
            u["alt"] = True
        if rng.random() < 0.25:
            u["code"] = LD_PIC if pool.hq else HQ_PIC  # other profile's code
        return u
    if r < 0.7 and pool.fragments is not None:
        pic = rng.randrange(pool.npics)
        u = {"t": "F", "pic": pic, "j": rng.randrange(len(pool.fragments[pic]))}
        if rng.random() < 0.15:
            u["code"] = LD_FRAG if pool.hq else HQ_FRAG
        return u
    if r < 0.85:
        return {"t": rng.choice(["A", "X"]), "n": rng.choice([0, 1, 2, 13]), "fill": rng.randrange(256)}
    return {"t": "E"}


def gen_history(rng, pool, max_units=14, levels=None):
    lvl = rng.choice(levels or [0, 0, 0, 0, 1, 1, 2, 3, 4, 5, 6, 7, 64, 65, 66, 66])
    nseq = rng.choice([1, 1, 1, 2, 3])
    var = rng.choice([0, 0, 0, 1, 2])
    units = []
    seq_mv = None
    for _s in range(nseq):
        tmpl, uses_frag = template_sequence(rng, pool, lvl)
        hv = 1
        h = pool.header(var, 3, lvl)
        if h is None:
            var = 0
            h = pool.header(0, 3, lvl)
        hv = h[1]
        m0 = minimal_version(pool, uses_frag, hv, any(u.get("alt") for u in tmpl))
        mv = m0
        if not pool.asym and rng.random() < 0.2:
            mv = rng.choice([1, 2, 3])
        # an empty sequence may also carry 3
        fill_defaults(rng, tmpl, var, mv, lvl)
        units += tmpl
        seq_mv = mv
    mode = rng.random()
    if mode < 0.12:
        nedits = 0
    elif mode < 0.6:
        nedits = rng.choice([1, 1, 2])
    else:
        nedits = rng.choice([2, 3, 4, 5])
    for _ in range(nedits):
        structural_edit(rng, pool, units, var, seq_mv, lvl)
        fill_defaults(rng, units, var, seq_mv, lvl)
    del units[max_units:]
    n0 = rng.choice(N0_CHOICES)
    if pool.pcm == 1 and rng.random() < 0.85:
        n0 -= n0 % 2
    if rng.random() < 0.85:
        renumber(units, n0, pool.pcm)
    else:
        # unrepaired: numbers as the edits left them (template order numbers)
        k = n0
        for u in units:
            if u["t"] in ("P", "F"):
                u.setdefault("num", (k + u.get("i", u.get("pic", 0))) & 0xFFFFFFFF)
    for u in units:
        if u["t"] in ("P", "F"):
            u.setdefault("num", n0)
    # --- numbering faults
    if rng.random() < 0.2:
        cands = [u for u in units if u["t"] in ("P", "F")]
        if cands:
            u = rng.choice(cands)
            u["num"] = (u["num"] + rng.choice([1, -1, 2, 1 << 31])) & 0xFFFFFFFF
    # --- fragment slice-offset faults (incl. values aliasing the right
    # linear slice index with an out-of-range column)
    conts = [u for u in units if u["t"] == "F" and u.get("j", 0) > 0]
    if conts and rng.random() < 0.15:
        u = rng.choice(conts)
        _b, _c, x, y = pool.fragments[u["pic"] % pool.npics][u["j"] % len(pool.fragments[u["pic"] % pool.npics])]
        sx = pool.cfg["sx"]
        cands = [[x + sx * y, 0], [x + 1, y], [x, y + 1], [0, 0], [x + sx, y]]
        if y > 0:
            cands += [[x + sx, y - 1], [x + sx, y - 1]]
        u["xy"] = rng.choice(cands)
    # --- offset faults: one or several, and sometimes the pair "a picture or
    # fragment omits its next offset, the following unit has a wrong previous
    # offset" (faults right after in-flight state)
    if units and rng.random() < 0.3:
        for _ in range(rng.choice([1, 1, 1, 2, 3])):
            u = rng.choice(units)
            which = rng.choice(["nx", "nx", "pv"])
            if u["t"] in ("A", "X"):
                which = "pv"  # their next offset is their framing
            if which == "nx":
                u["nx"] = rng.choice([0, 0, 1, 12, 13, 14, rng.randrange(0, 100)])
            else:
                u["pv"] = rng.choice([0, 0, 13, rng.randrange(0, 100)])
    pf = [k for k, u in enumerate(units[:-1]) if u["t"] in ("P", "F")]
    if pf and rng.random() < 0.12:
        k = rng.choice(pf)
        units[k]["nx"] = 0
        if rng.random() < 0.7:
            units[k + 1]["pv"] = rng.choice([0, 13, rng.randrange(0, 200)])
    return units


# --------------------------------------------------------------------------
# C01
# --------------------------------------------------------------------------


def unit_repr(u):
    s = u["t"]
    if s == "H":
        s += "%d/v%d/L%d" % (u["var"], u["mv"], u["lvl"])
    elif s == "P":
        s += "%s%d#%d" % ("'" if u.get("alt") else "", u["i"], u["num"])
    elif s == "F":
        s += "%d.%d#%d" % (u["pic"], u["j"], u["num"])
    elif s in ("A", "X"):
        s += "%d" % u["n"]
    if "code" in u:
        s += "!%02x" % u["code"]
    if u.get("nx", "ok") != "ok":
        s += ">%s" % u["nx"]
    if u.get("pv", "ok") != "ok":
        s += "<%s" % u["pv"]
    if "xy" in u:
        s += "@%d,%d" % tuple(u["xy"])
    return s


class UnitChanSpec(Spec):
    sim = "B"
    guard_globals = True
    chunk = 250
    components = {
        "real": [
            "vc2_conformance.encoder.make_sequence / iter_sequence_headers (sender)",
            "vc2_conformance.bitstream serialiser (sender)",
            "vc2_conformance.decoder.parse_stream (validating decoder)",
            "vc2_conformance.symbol_re.Matcher with the real LEVEL_SEQUENCE_RESTRICTIONS patterns",
        ],
        "stub": [
            "file object (sim.core.SimFile)",
            "data-unit channel (sim.unitchan.assemble)",
            "LEVEL_CONSTRAINTS value table replaced in-process by one row per level that fixes the level and permits every other value, so that tiny pictures can carry any level number (LEVEL_SEQUENCE_RESTRICTIONS stays real); a minority arm (every 2000th run, every 250th in the thorough tier) uses QSIF525 pictures with the REAL level-1 value table",
        ],
    }

    def setup(self, verif_seed, tier):
        install_permissive_level_values()
        self.verif_seed = verif_seed
        self.pool_cfgs = W.config_pool(verif_seed, "B", 400 if tier == "thorough" else 64, max_w=8, max_h=4)

    def prewarm(self, verif_seed, tier, workers):
        # pools are cheap enough (~50 ms) and each worker only meets a subset
        pass


class C01(UnitChanSpec):
    prop = "C01"
    title = "Validator accepts exactly the structurally conformant data-unit histories"
    quick_runs = 60000
    thorough_runs = 2000000
    state_measure = "distinct (level family, version slack, abstract history shape, verdict) tuples"
    assumptions = [
        "data-unit bodies are individually valid by construction (real encoder output, control arm) and are only ever placed under a governing header that frames them correctly (composition rule, DESIGN §5)",
        "the level value table is stubbed by a permissive row; the level ordering patterns are real",
        "padding/auxiliary units always carry their true next_parse_offset (it is their framing)",
    ]
    rule = (
        "each run = one history of <=14 data units assembled from blobs cut out of real encoder output for a seeded small "
        "configuration: conformant template sequence(s) for a seeded level/version/header variant, 0-5 structural edits "
        "(drop, duplicate, swap, move, insert, substitute, truncate), a repair pass re-deriving consecutive picture numbers "
        "(85%), then numbering and parse-offset faults. The real validator reads the concatenation; the reference model "
        "(sim.unitchan.model_verdict) says ACCEPT/REJECT. Judged: accept <=> model ACCEPT, every rejection a "
        "ConformanceError. non-trivial = history with >= 2 units; distinct = distinct event digest."
    )

    def generate(self, rng, idx, tier):
        if idx % (250 if tier == "thorough" else 2000) == 249:
            # real-level arm: QSIF525 pictures validated against the REAL level
            # value table (level 1); the only stub left is the file object
            prof, frag, wav = [(3, 2, 1), (0, 0, 4), (3, 0, 3), (0, 3, 1)][(idx // 250) % 4 if tier == "thorough" else (idx // 2000) % 2]
            cfg = dict(W.qsif_config(prof, frag, wavelet=wav, pic_seed=1), real_level=1)
            try:
                pool = get_pool(cfg)
            except W.WorkloadError:
                return {"cfg": cfg, "units": []}
            return {"cfg": cfg, "units": gen_history(rng, pool, max_units=8, levels=[1])}
        # one configuration per 125 consecutive runs (keeps the per-worker
        # cost of building unit pools low; still a pure function of seed+idx)
        k = derive_seed(self.verif_seed, "B-cfg", self.prop, idx // 125) % len(self.pool_cfgs)
        cfg = dict(self.pool_cfgs[k])
        try:
            pool = get_pool(cfg)
        except W.WorkloadError:
            return {"cfg": cfg, "units": []}
        units = gen_history(rng, pool)
        if idx % 1500 == 11 and units and rng.random() < 0.7:
            # (mostly on an otherwise conformant sequence, so that size is the
            # only thing in play)
            for _try in range(6):
                cand = conformant_sequence(rng, pool)
                if cand and cand[0].get("lvl") not in (64, 65, 66):
                    units = cand
                    break
        if idx % 1500 == 11 and units:
            # "long history" arm: hundreds to thousands of tiny padding /
            # auxiliary units inside the sequence (counts and offsets far beyond
            # what 14-unit histories reach)
            at = 1 + rng.randrange(len(units))
            if rng.random() < 0.5:
                n = rng.choice([300, 1000, 5000])
                filler = [{"t": rng.choice(["X", "A"]), "n": rng.choice([0, 0, 1, 2]), "fill": (i * 7) & 0xFF} for i in range(n)]
            else:
                # exactly as much filler as makes the unit at ``at`` (often a
                # repeated sequence header) straddle a 4 KiB / 8 KiB / 16 KiB /
                # 64 KiB stream offset
                if at < len(units) and units[at]["t"] != "H" and units[0]["t"] == "H" and rng.random() < 0.7:
                    units.insert(at, dict(units[0]))
                try:
                    _d, ab, _m = assemble(pool, units)
                    before = sum(a.length for a in ab[:at])
                    ulen = ab[at].length if at < len(ab) else 13
                except Exception:  # noqa: BLE001 — malformed template: plain filler
                    before, ulen = 0, 13
                bnd = rng.choice([4096, 8192, 8192, 16384, 65536])
                total = bnd - rng.randrange(1, max(2, ulen)) - before
                filler = []
                while total >= 26:
                    filler.append({"t": "X", "n": 0, "fill": 0})
                    total -= 13
                if total >= 13:
                    filler.append({"t": "A", "n": total - 13, "fill": 5})
            units[at:at] = filler
        return {"cfg": cfg, "units": units}

    def shrink(self, case):
        if len(case["units"]) > 200:
            # long histories: drop the bulk first
            small = [u for u in case["units"] if u["t"] not in ("X", "A")]
            yield dict(case, units=small)
        for us in shrink_list(case["units"]):
            yield dict(case, units=us)
        for k, u in enumerate(case["units"]):
            for f in ("nx", "pv", "code", "xy"):
                if f in u and u[f] != "ok":
                    v = dict(u)
                    del v[f]
                    yield dict(case, units=case["units"][:k] + [v] + case["units"][k + 1 :])
        # renumber consecutively from 0
        us = [dict(u) for u in case["units"]]
        renumber(us, 0, 0)
        if us != case["units"]:
            yield dict(case, units=us)

    def execute(self, case):
        stats = Counter()
        events = [("case", repr(sorted(case["cfg"].items())), [unit_repr(u) for u in case["units"]])]
        real = bool(case["cfg"].get("real_level"))
        if real:
            R.use_real_levels()
            R.ALLOW_BASE_FORMATS[0] = True
            stats["real-level-table-runs"] += 1
        else:
            R.use_permissive_levels()
            R.ALLOW_BASE_FORMATS[0] = False
        try:
            return self._execute(case, stats, events)
        finally:
            R.ALLOW_BASE_FORMATS[0] = False
            R.use_permissive_levels()

    def _execute(self, case, stats, events):
        try:
            pool = get_pool(case["cfg"])
            data, abstract, misframed = assemble(pool, case["units"])
        except W.WorkloadError as e:
            stats["discard:precondition-encoder"] += 1
            return Outcome(DISCARD, events + [("precondition", str(e))], stats=stats)
        except (IndexError, TypeError, KeyError) as e:
            # a shrunk case referring to a fragment the pool does not have
            stats["discard:malformed-case"] += 1
            return Outcome(DISCARD, events + [("malformed", repr(e))], stats=stats)
        if misframed:
            stats["discard:composition-rule"] += 1
            return Outcome(DISCARD, events + [("misframed",)], stats=stats)
        reason = model_verdict(abstract, pool.hq, pool.pcm, pool.cfg["sx"], pool.cfg["sy"])
        res = R.run_validator(data)
        vname = res.verdict if res.exc is None else "%s:%s" % (res.verdict, type(res.exc).__name__)
        events.append(("model", reason, "validator", vname, res.reads, len(res.pics)))
        stats["model:" + ("ACCEPT" if reason is None else "REJECT")] += 1
        stats["validator:" + res.verdict] += 1
        if res.exc is not None:
            stats["reject:" + type(res.exc).__name__] += 1
        if reason is not None:
            stats["model-reason:" + reason.split(":")[0][:60]] += 1
        lvls = sorted(set(u["lvl"] for u in case["units"] if u["t"] == "H"))
        fam = ",".join("0" if l == 0 else "1-7" if l < 64 else str(l) for l in lvls[:2])
        shape = "".join(u["t"] for u in case["units"])
        key = "L%s|%s|%s" % (fam, shape, vname)
        nontrivial = len(case["units"]) >= 2
        if res.verdict == "oos":
            stats["discard:out-of-scope"] += 1
            return Outcome(DISCARD, events, stats=stats)
        hist = " ".join(unit_repr(u) for u in case["units"])
        if res.verdict == "crash":
            return Outcome(
                VIOLATION, events, sig=exc_sig("C01/validator-crash", res.exc),
                detail="history: %s\nmodel: %s\nvalidator raised a non-conformance exception:\n%s" % (hist, reason or "ACCEPT", short_tb(res.exc)),
                stats=stats, nontrivial=nontrivial, key=key, ticks=res.reads,
            )
        if (res.verdict == "accept") != (reason is None):
            if reason is None:
                sig = "C01/model-accepts-validator-rejects/%s" % type(res.exc).__name__
                detail = "history: %s\nmodel: ACCEPT (conformant)\nvalidator: REJECT %s: %s" % (hist, type(res.exc).__name__, str(res.exc)[:300])
            else:
                sig = "C01/validator-accepts-nonconformant/%s" % reason.split(":")[0][:50]
                detail = "history: %s\nmodel: REJECT (%s)\nvalidator: ACCEPT" % (hist, reason)
            return Outcome(VIOLATION, events, sig=sig, detail=detail, stats=stats, nontrivial=nontrivial, key=key, ticks=res.reads)
        return Outcome(OK, events, stats=stats, nontrivial=nontrivial, key=key, ticks=res.reads)

    def extra_evidence(self, merged):
        st = merged["stats"]
        return {
            "model_verdicts": {k[6:]: v for k, v in st.items() if k.startswith("model:")},
            "model_reject_reasons": {k[13:]: v for k, v in st.items() if k.startswith("model-reason:")},
            "conformance_error_classes_raised": {k[7:]: v for k, v in st.items() if k.startswith("reject:")},
        }


register(C01())


# --------------------------------------------------------------------------
# C10 — concatenated sequences are validated and decoded independently
# --------------------------------------------------------------------------


def conformant_sequence(rng, pool):
    lvl = rng.choice([0, 0, 0, 1, 2, 3, 5, 7, 64, 65, 66])
    if lvl in (64, 65) and pool.hq:
        lvl = 66
    if lvl == 66 and not pool.hq:
        lvl = 64
    var = rng.choice([0, 0, 1, 2])
    tmpl, uses_frag = template_sequence(rng, pool, lvl)
    if 1 <= lvl <= 7 and uses_frag:
        # templates for levels 1-7 never mix (template_sequence only mixes at level 0)
        pass
    h = pool.header(var, 3, lvl)
    if h is None:
        var = 0
        h = pool.header(0, 3, lvl)
    mv = minimal_version(pool, uses_frag, h[1], any(u.get("alt") for u in tmpl))
    fill_defaults(rng, tmpl, var, mv, lvl)
    n0 = rng.choice(N0_CHOICES)
    if pool.pcm == 1:
        n0 -= n0 % 2
    renumber(tmpl, n0, pool.pcm)
    return tmpl


twin_config = W.twin_config


class C10(UnitChanSpec):
    prop = "C10"
    title = "Concatenated sequences are validated and decoded independently"
    quick_runs = 16000
    thorough_runs = 600000
    chunk = 200
    state_measure = "distinct (per-sequence configuration classes, position of the non-conformant sequence, verdict) tuples"
    assumptions = [
        "each sequence is assembled from real encoder output for its own configuration; 'conformant' is decided by a fresh real validator run on the sequence alone (differential oracle), not by the model",
        "non-conformant sequences placed before the last position end with end_of_sequence (a truncated sequence would merge with its successor, which the statement does not speak of)",
        "the level value table is stubbed by a permissive row; the level ordering patterns are real",
    ]
    rule = (
        "each run = a list of 1-5 sequences drawn from different seeded configurations (profile, major version, level "
        "family, pictures vs fragments, field/frame coding, first picture number, header variant), optionally one "
        "non-conformant sequence (a C01-style edited history) at a seeded position. Reference = each sequence validated "
        "alone by a fresh real validator. Judged: a list of individually accepted sequences is accepted and the callback "
        "pictures equal the concatenation of the per-sequence pictures; with the first individually rejected sequence at "
        "position p the concatenation is rejected (by a ConformanceError) and the pictures of sequences 0..p-1 are "
        "delivered unchanged. non-trivial = >= 2 sequences."
    )

    def setup(self, verif_seed, tier):
        UnitChanSpec.setup(self, verif_seed, tier)

    def generate(self, rng, idx, tier):
        nseq = rng.choice([1, 2, 2, 3, 3, 4, 5])
        # few distinct configurations per block of runs (pool cost), but
        # different ones within a list
        base = derive_seed(self.verif_seed, "B-cfg", self.prop, idx // 100)
        cands = [(base + 7919 * j) % len(self.pool_cfgs) for j in range(4)]
        bad_at = rng.randrange(nseq) if rng.random() < 0.45 else None
        seqs = []
        twins = rng.random() < 0.3
        for s in range(nseq):
            cfg = dict(self.pool_cfgs[rng.choice(cands)])
            if twins:
                # "twin" sequences: the same configuration with mid-grey pictures
                # (all coefficients zero) and ONE thing changed from sequence to
                # sequence (sample depth / slice layout / wavelet / colour spec):
                # anything a decoder wrongly carries over from the previous
                # sequence still fits, but gives different pictures
                cfg = twin_config(dict(self.pool_cfgs[cands[0]]), rng.randrange(8) if s else 0)
            try:
                pool = get_pool(cfg)
            except W.WorkloadError:
                continue
            if s == bad_at and rng.random() < 0.3:
                # a conformant sequence with ONE framing fault at its boundary
                # (what concatenation could mask): the end-of-sequence unit's
                # next offset, or the first unit's previous offset
                units = conformant_sequence(rng, pool)
                if rng.random() < 0.6:
                    units[-1]["nx"] = rng.choice([13, 13, 13, 26, 1, 12, 14])
                else:
                    units[0]["pv"] = rng.choice([13, 1, 26, rng.randrange(1, 200)])
            elif s == bad_at:
                units = gen_history(rng, pool, max_units=10)
                # keep it delimited unless it is the last sequence
                if s != nseq - 1:
                    units = [u for u in units if u["t"] != "E"] + [{"t": "E"}]
            else:
                units = conformant_sequence(rng, pool)
            seqs.append({"cfg": cfg, "units": units})
        if idx % 8000 == 7:
            # "long stream" arm (tens of seconds per run: one in 8000): every
            # sequence carries a padding unit of about a mebibyte, so that later
            # sequences start beyond, and straddle, 64 KiB / 1 MiB offsets —
            # whatever block size a reader might use
            for sq in seqs[:3]:
                us = sq["units"]
                if us and us[0].get("t") == "H" and us[0].get("lvl") not in (64, 65, 66):
                    us.insert(1, {"t": "X", "n": rng.choice([1048576 + 100, 1100000, 600000, 70000]), "fill": rng.randrange(256)})
            del seqs[3:]
        if idx % 4000 == 13 and seqs:
            # "many sequences" arm: the (conformant) sequences of this list
            # repeated until the stream holds 60 or 300 of them
            good = [sq for k, sq in enumerate(seqs) if k != bad_at] or seqs
            n = rng.choice([60, 300])
            seqs = [dict(good[i % len(good)]) for i in range(n)]
        return {"seqs": seqs}

    def shrink(self, case):
        for ss in shrink_list(case["seqs"]):
            yield {"seqs": ss}
        for k, sq in enumerate(case["seqs"]):
            for us in shrink_list(sq["units"]):
                yield {"seqs": case["seqs"][:k] + [dict(sq, units=us)] + case["seqs"][k + 1 :]}

    def execute(self, case):
        stats = Counter()
        events = [("case", [(repr(sorted(s["cfg"].items())), [unit_repr(u) for u in s["units"]]) for s in case["seqs"]])]
        blobs = []
        try:
            for sq in case["seqs"]:
                pool = get_pool(sq["cfg"])
                data, _abs, misframed = assemble(pool, sq["units"])
                if misframed:
                    stats["discard:composition-rule"] += 1
                    return Outcome(DISCARD, events + [("misframed",)], stats=stats)
                blobs.append(data)
        except W.WorkloadError as e:
            stats["discard:precondition-encoder"] += 1
            return Outcome(DISCARD, events + [("precondition", str(e))], stats=stats)
        except (IndexError, TypeError, KeyError) as e:
            stats["discard:malformed-case"] += 1
            return Outcome(DISCARD, events + [("malformed", repr(e))], stats=stats)
        alone = [R.run_validator(b) for b in blobs]
        ticks = sum(a.reads for a in alone)
        for a in alone:
            if a.verdict == "oos":
                stats["discard:out-of-scope"] += 1
                return Outcome(DISCARD, events, stats=stats)
        p = next((k for k, a in enumerate(alone) if a.verdict != "accept"), None)
        # a non-delimited rejected sequence before the end would merge with its successor
        if p is not None and p != len(blobs) - 1 and (not case["seqs"][p]["units"] or case["seqs"][p]["units"][-1]["t"] != "E"):
            stats["discard:undelimited-sequence"] += 1
            return Outcome(DISCARD, events, stats=stats)
        comb = R.run_validator(b"".join(blobs))
        ticks += comb.reads
        names = [a.verdict if a.exc is None else "%s:%s" % (a.verdict, type(a.exc).__name__) for a in alone]
        cname = comb.verdict if comb.exc is None else "%s:%s" % (comb.verdict, type(comb.exc).__name__)
        events.append(("alone", names, [len(a.pics) for a in alone], "combined", cname, len(comb.pics), comb.reads))
        stats["lists:%s" % ("all-conformant" if p is None else "nonconformant-at-%d" % p)] += 1
        stats["combined:" + comb.verdict] += 1
        key = "%s|p=%s|%s" % ("+".join("%s%s" % ("HQ" if s["cfg"]["profile"] == 3 else "LD", "i" if s["cfg"]["pcm"] else "p") for s in case["seqs"]), p, comb.verdict)
        nontrivial = len(blobs) >= 2
        desc = "\n".join("  seq %d [%s alone]: %s" % (k, names[k], " ".join(unit_repr(u) for u in s["units"])) for k, s in enumerate(case["seqs"]))

        def viol(sig, what):
            return Outcome(VIOLATION, events, sig=sig, detail="%s\n%s\ncombined: %s" % (what, desc, cname), stats=stats, nontrivial=nontrivial, key=key, ticks=ticks)

        for k, a in enumerate(alone):
            if a.verdict == "crash":
                return viol(exc_sig("C10/validator-crash-alone", a.exc), "sequence %d alone crashed the validator:\n%s" % (k, short_tb(a.exc)))
        if comb.verdict == "crash":
            return viol(exc_sig("C10/validator-crash", comb.exc), "the concatenation crashed the validator:\n%s" % short_tb(comb.exc))
        if comb.verdict == "oos":
            stats["discard:out-of-scope"] += 1
            return Outcome(DISCARD, events, stats=stats)
        if p is None:
            if comb.verdict != "accept":
                return viol("C10/conformant-list-rejected/%s" % type(comb.exc).__name__, "every sequence is accepted alone but the concatenation is rejected: %s" % str(comb.exc)[:300])
            want = [pic for a in alone for pic in a.pics]
            if comb.pics != want:
                return viol("C10/pictures-differ", "concatenation accepted but its pictures differ from the per-sequence pictures (%d vs %d)" % (len(comb.pics), len(want)))
            stats["pictures_compared"] += len(want)
        else:
            if comb.verdict == "accept":
                return viol("C10/nonconformant-list-accepted", "sequence %d is rejected alone but the concatenation is accepted" % p)
            want = [pic for a in alone[:p] for pic in a.pics]
            if comb.pics[: len(want)] != want:
                return viol("C10/prefix-pictures-differ", "pictures of the sequences before the rejected one (%d) were not delivered unchanged" % p)
            stats["pictures_compared"] += len(want)
        return Outcome(OK, events, stats=stats, nontrivial=nontrivial, key=key, ticks=ticks)

    def extra_evidence(self, merged):
        st = merged["stats"]
        return {"list_kinds": {k[6:]: v for k, v in st.items() if k.startswith("lists:")}}


register(C10())
