"""Simulated file system, ``os``/``time`` shims and the seam installer
(DESIGN.md section 3, 6).  Every operation is an event and (when a scheduler
is attached) a yield point.
"""

import builtins
import contextlib
import io
import os as _real_os
import posixpath
import sys
import time as _real_time

from sim.core import HarnessError


class SimFSFile(object):
    """Binary file whose bytes live in the SimFS (so partially written files
    are visible to other tasks — real in-flight state)."""

    def __init__(self, fs, path, buf, mode):
        self.fs, self.name, self._buf, self.mode = fs, path, buf, mode
        self._pos = len(buf) if "a" in mode else 0
        self.closed = False

    def _check(self):
        if self.closed:
            raise ValueError("I/O operation on closed file.")

    def read(self, n=-1):
        self._check()
        self.fs.op("read", self.name)
        if n is None or n < 0:
            n = len(self._buf) - self._pos
        out = bytes(self._buf[self._pos : self._pos + n])
        self._pos += len(out)
        return out

    def readinto(self, b):
        data = self.read(len(b))
        b[: len(data)] = data
        return len(data)

    readinto1 = readinto

    def read1(self, n=-1):
        return self.read(n)

    def readline(self, limit=-1):
        self._check()
        end = self._buf.find(b"\n", self._pos)
        end = len(self._buf) if end < 0 else end + 1
        if limit is not None and limit >= 0:
            end = min(end, self._pos + limit)
        return self.read(end - self._pos)

    def isatty(self):
        return False

    def fileno(self):
        raise io.UnsupportedOperation("fileno")

    def truncate(self, size=None):
        self._check()
        size = self._pos if size is None else size
        del self._buf[size:]
        return size

    def write(self, b):
        self._check()
        if "r" in self.mode and "+" not in self.mode:
            raise io.UnsupportedOperation("not writable")
        self.fs.op("write", self.name)
        b = bytes(b)
        if self._pos > len(self._buf):
            self._buf.extend(b"\x00" * (self._pos - len(self._buf)))
        self._buf[self._pos : self._pos + len(b)] = b
        self._pos += len(b)
        return len(b)

    def seek(self, off, whence=0):
        self._check()
        if not -(1 << 63) <= off < (1 << 63):
            raise OverflowError("Python int too large to convert to C long")
        if whence == 0:
            self._pos = off
        elif whence == 1:
            self._pos += off
        else:
            self._pos = len(self._buf) + off
        return self._pos

    def tell(self):
        return self._pos

    def flush(self):
        pass

    def close(self):
        if not self.closed:
            self.closed = True
            self.fs.op("close", self.name)
            self.fs.open_for_write.discard(id(self))

    def readable(self):
        return True

    def writable(self):
        return "r" not in self.mode or "+" in self.mode

    def seekable(self):
        return True

    def __enter__(self):
        return self

    def __exit__(self, *a):
        self.close()
        return False

    def __iter__(self):
        return iter(self.read().splitlines(True))


class _TextWriter(io.StringIO):
    def __init__(self, fs, path, buf, encoding, newline):
        super(_TextWriter, self).__init__(newline=newline)
        self._fs, self._path, self._buf, self._enc = fs, path, buf, encoding
        self.name = path

    def close(self):
        if not self.closed:
            data = self.getvalue().encode(self._enc or "utf-8")
            self._fs.op("write", self._path)
            self._buf[:] = data
            self._fs.op("close", self._path)
        super(_TextWriter, self).close()


class SimFS(object):
    def __init__(self, root="/sim"):
        self.root = root.rstrip("/")
        self.files = {}
        self.dirs = {self.root}
        self.log = []
        self.hook = None  # callable(op, path) — scheduler yield point
        self.counts = {}
        self.open_for_write = set()
        self.max_open_for_write = 0
        self.record = True

    # ---- bookkeeping
    def inside(self, path):
        p = posixpath.normpath(str(path))
        return p == self.root or p.startswith(self.root + "/")

    def norm(self, path):
        return posixpath.normpath(str(path))

    def op(self, op, path):
        self.counts[op] = self.counts.get(op, 0) + 1
        if self.record:
            self.log.append((op, path))
        if self.hook is not None:
            self.hook(op, path)

    # ---- the seam functions
    def open(self, path, mode="r", buffering=-1, encoding=None, errors=None, newline=None, *a, **kw):
        if not self.inside(path):
            if any(c in mode for c in "wax+"):
                raise HarnessError("write outside the simulated root: %r" % (path,))
            return builtins.open(path, mode, buffering, encoding, errors, newline, *a, **kw)
        p = self.norm(path)
        self.op("open:" + mode, p)
        binary = "b" in mode
        if "r" in mode:
            if p not in self.files:
                raise FileNotFoundError(2, "No such file or directory", p)
            buf = self.files[p]
        else:
            parent = posixpath.dirname(p)
            if parent not in self.dirs:
                raise FileNotFoundError(2, "No such file or directory", p)
            if p in self.dirs:
                raise IsADirectoryError(21, "Is a directory", p)
            if "x" in mode and p in self.files:
                raise FileExistsError(17, "File exists", p)
            if "w" in mode or p not in self.files:
                if p in self.files:
                    del self.files[p][:]  # truncate in place: other handles see it
                else:
                    self.files[p] = bytearray()
            buf = self.files[p]
        if binary:
            f = SimFSFile(self, p, buf, mode)
            if "r" not in mode:
                self.open_for_write.add(id(f))
                self.max_open_for_write = max(self.max_open_for_write, len(self.open_for_write))
            return f
        if "r" in mode:
            self.op("read", p)
            return io.StringIO(bytes(buf).decode(encoding or "utf-8"), newline=newline)
        return _TextWriter(self, p, buf, encoding, newline)

    def makedirs(self, name, mode=0o777, exist_ok=False):
        if not self.inside(name):
            raise HarnessError("makedirs outside the simulated root: %r" % (name,))
        p = self.norm(name)
        # create parents one at a time: each is a yield point, like the real
        # os.makedirs which is not atomic
        parts = []
        q = p
        while q not in self.dirs and q != "/" and q:
            parts.append(q)
            q = posixpath.dirname(q)
        for q in reversed(parts[1:]):
            self.op("mkdir", q)
            if q in self.files:
                raise FileExistsError(17, "File exists", q)
            self.dirs.add(q)
        self.op("mkdir", p)
        if p in self.files:
            raise FileExistsError(17, "File exists", p)
        if p in self.dirs:
            if not exist_ok:
                raise FileExistsError(17, "File exists", p)
            return
        self.dirs.add(p)

    def mkdir(self, name, mode=0o777):
        p = self.norm(name)
        self.op("mkdir", p)
        if p in self.dirs or p in self.files:
            raise FileExistsError(17, "File exists", p)
        if posixpath.dirname(p) not in self.dirs:
            raise FileNotFoundError(2, "No such file or directory", p)
        self.dirs.add(p)

    def listdir(self, path="."):
        if not self.inside(path):
            return _real_os.listdir(path)
        p = self.norm(path)
        self.op("listdir", p)
        if p not in self.dirs:
            raise FileNotFoundError(2, "No such file or directory", p)
        pre = p + "/"
        names = set()
        for q in list(self.files) + list(self.dirs):
            if q.startswith(pre):
                names.add(q[len(pre) :].split("/", 1)[0])
        names = sorted(names)
        seed = getattr(self, "listdir_seed", None)
        if seed is not None:
            # a real file system returns entries in no particular order
            import hashlib
            import random

            random.Random(int.from_bytes(hashlib.sha256(("%d/%s" % (seed, p)).encode()).digest()[:8], "big")).shuffle(names)
        return names

    def exists(self, path):
        if not self.inside(path):
            return _real_os.path.exists(path)
        p = self.norm(path)
        self.op("stat", p)
        return p in self.files or p in self.dirs

    def isdir(self, path):
        if not self.inside(path):
            return _real_os.path.isdir(path)
        p = self.norm(path)
        self.op("stat", p)
        return p in self.dirs

    def isfile(self, path):
        if not self.inside(path):
            return _real_os.path.isfile(path)
        p = self.norm(path)
        self.op("stat", p)
        return p in self.files

    def getsize(self, path):
        if not self.inside(path):
            return _real_os.path.getsize(path)
        p = self.norm(path)
        self.op("stat", p)
        if p in self.files:
            return len(self.files[p])
        if p in self.dirs:
            return 4096
        raise FileNotFoundError(2, "No such file or directory", p)

    def remove(self, path):
        p = self.norm(path)
        self.op("remove", p)
        if p not in self.files:
            raise FileNotFoundError(2, "No such file or directory", p)
        del self.files[p]

    unlink = remove

    # ---- descriptor-level API (os.open / os.fdopen / os.write / os.close)
    def os_open(self, path, flags, mode=0o777, *a, **kw):
        if not self.inside(path):
            return _real_os.open(path, flags, mode, *a, **kw)
        p = self.norm(path)
        self.op("os.open", p)
        acc = flags & (_real_os.O_RDONLY | _real_os.O_WRONLY | _real_os.O_RDWR)
        exists = p in self.files
        if p in self.dirs:
            raise IsADirectoryError(21, "Is a directory", p)
        if not exists:
            if not flags & _real_os.O_CREAT:
                raise FileNotFoundError(2, "No such file or directory", p)
            if posixpath.dirname(p) not in self.dirs:
                raise FileNotFoundError(2, "No such file or directory", p)
            self.files[p] = bytearray()
        elif flags & _real_os.O_CREAT and flags & _real_os.O_EXCL:
            raise FileExistsError(17, "File exists", p)
        if flags & _real_os.O_TRUNC and acc != _real_os.O_RDONLY:
            del self.files[p][:]
        fmode = "rb" if acc == _real_os.O_RDONLY else ("r+b" if acc == _real_os.O_RDWR else "wb")
        f = SimFSFile(self, p, self.files[p], fmode)
        f._append = bool(flags & _real_os.O_APPEND)
        if not hasattr(self, "_fds"):
            self._fds = {}
            self._next_fd = 1000
        fd = self._next_fd
        self._next_fd += 1
        self._fds[fd] = f
        if acc != _real_os.O_RDONLY:
            self.open_for_write.add(id(f))
            self.max_open_for_write = max(self.max_open_for_write, len(self.open_for_write))
        return fd

    def os_fdopen(self, fd, mode="r", *a, **kw):
        f = getattr(self, "_fds", {}).get(fd)
        if f is None:
            return _real_os.fdopen(fd, mode, *a, **kw)
        if "b" not in mode:
            raise HarnessError("text-mode os.fdopen on the simulated file system is not implemented")
        return f

    def os_close(self, fd):
        f = getattr(self, "_fds", {}).pop(fd, None)
        if f is None:
            return _real_os.close(fd)
        f.close()

    def os_write(self, fd, data):
        f = getattr(self, "_fds", {}).get(fd)
        if f is None:
            return _real_os.write(fd, data)
        if getattr(f, "_append", False):
            f.seek(0, 2)
        return f.write(data)

    def os_read(self, fd, n):
        f = getattr(self, "_fds", {}).get(fd)
        if f is None:
            return _real_os.read(fd, n)
        return f.read(n)

    def rename(self, src, dst, *a, **kw):
        s_, d_ = self.norm(src), self.norm(dst)
        if not self.inside(s_) and not self.inside(d_):
            return _real_os.rename(src, dst)
        self.op("rename", s_)
        if posixpath.dirname(d_) not in self.dirs:
            raise FileNotFoundError(2, "No such file or directory", d_)
        if s_ in self.files:
            if d_ in self.dirs:
                raise IsADirectoryError(21, "Is a directory", d_)
            self.files[d_] = self.files.pop(s_)
            return
        if s_ in self.dirs:
            if d_ in self.files:
                raise NotADirectoryError(20, "Not a directory", d_)
            pre = s_ + "/"
            for q in [q for q in self.files if q.startswith(pre)]:
                self.files[d_ + q[len(s_) :]] = self.files.pop(q)
            for q in [q for q in self.dirs if q == s_ or q.startswith(pre)]:
                self.dirs.discard(q)
                self.dirs.add(d_ + q[len(s_) :])
            return
        raise FileNotFoundError(2, "No such file or directory", s_)

    replace = rename

    def rmdir(self, path):
        p = self.norm(path)
        self.op("rmdir", p)
        if p not in self.dirs:
            raise FileNotFoundError(2, "No such file or directory", p)
        pre = p + "/"
        if any(q.startswith(pre) for q in list(self.files) + list(self.dirs)):
            raise OSError(39, "Directory not empty", p)
        self.dirs.discard(p)

    def stat(self, path, *a, **kw):
        if not self.inside(path):
            return _real_os.stat(path, *a, **kw)
        p = self.norm(path)
        self.op("stat", p)
        if p in self.files:
            return _real_os.stat_result((0o100644, 0, 0, 1, 0, 0, len(self.files[p]), 0, 0, 0))
        if p in self.dirs:
            return _real_os.stat_result((0o040755, 0, 0, 1, 0, 0, 4096, 0, 0, 0))
        raise FileNotFoundError(2, "No such file or directory", p)

    def walk(self, top, topdown=True, *a, **kw):
        if not self.inside(top):
            for t in _real_os.walk(top, topdown, *a, **kw):
                yield t
            return
        p = self.norm(top)
        if p not in self.dirs:
            return
        names = self.listdir(p)
        ds = [n for n in names if posixpath.join(p, n) in self.dirs]
        fs_ = [n for n in names if posixpath.join(p, n) in self.files]
        if topdown:
            yield p, ds, fs_
        for d in ds:
            for t in self.walk(posixpath.join(p, d), topdown):
                yield t
        if not topdown:
            yield p, ds, fs_

    def glob(self, pattern, *a, **kw):
        """glob.glob over the simulated tree (``*``, ``?``, ``[..]`` per path
        component; ``**`` with recursive=True)."""
        import fnmatch
        import glob as _real_glob

        if not self.inside(posixpath.normpath(str(pattern).split("*")[0].split("?")[0].split("[")[0] or ".")) and not str(pattern).startswith(self.root):
            return _real_glob.glob(pattern, *a, **kw)
        self.op("glob", str(pattern))
        parts = self.norm(pattern).split("/")
        cur = ["/".join(parts[:1]) or "/"]
        for comp in parts[1:]:
            nxt = []
            for base in cur:
                if comp == "**" and kw.get("recursive"):
                    nxt.append(base)
                    pre = base.rstrip("/") + "/"
                    nxt += sorted(q for q in self.dirs if q.startswith(pre))
                elif any(ch in comp for ch in "*?["):
                    if base in self.dirs or base == "":
                        pre = base.rstrip("/") + "/"
                        for n in self.listdir(base) if base in self.dirs else []:
                            if fnmatch.fnmatchcase(n, comp):
                                nxt.append(pre + n)
                else:
                    cand = (base.rstrip("/") + "/" + comp) if base != "/" else "/" + comp
                    if cand in self.files or cand in self.dirs or not self.inside(cand):
                        nxt.append(cand)
            cur = nxt
        return [q for q in cur if q in self.files or q in self.dirs]

    def rmtree(self, path, ignore_errors=False, *a, **kw):
        p = self.norm(path)
        if not self.inside(p):
            import shutil as _sh

            return _sh.rmtree(path, ignore_errors, *a, **kw)
        self.op("rmtree", p)
        if p not in self.dirs:
            if ignore_errors:
                return
            raise FileNotFoundError(2, "No such file or directory", p)
        pre = p + "/"
        for q in [q for q in self.files if q.startswith(pre)]:
            del self.files[q]
        for q in [q for q in self.dirs if q == p or q.startswith(pre)]:
            self.dirs.discard(q)

    def copyfile(self, src, dst, *a, **kw):
        with self.open(src, "rb") as f:
            data = f.read()
        with self.open(dst, "wb") as g:
            g.write(data)
        return dst

    # ---- harness helpers (not seam functions; no events)
    def put(self, path, data):
        p = self.norm(path)
        d = posixpath.dirname(p)
        while d and d not in self.dirs:
            self.dirs.add(d)
            d = posixpath.dirname(d)
        self.files[p] = bytearray(data)

    def get(self, path):
        return bytes(self.files[self.norm(path)])

    def tree(self):
        return {p: bytes(b) for p, b in self.files.items()}


class _PathShim(object):
    def __init__(self, fs):
        self._fs = fs
        self.exists, self.isdir, self.isfile, self.getsize = fs.exists, fs.isdir, fs.isfile, fs.getsize

    def __getattr__(self, name):
        return getattr(_real_os.path, name)


class OsShim(object):
    """Stands in for the ``os`` module attribute of a patched script module."""

    def __init__(self, fs):
        self._fs = fs
        self.path = _PathShim(fs)
        self.listdir, self.makedirs, self.mkdir, self.remove = fs.listdir, fs.makedirs, fs.mkdir, fs.remove
        self.unlink, self.rename, self.replace, self.rmdir, self.stat, self.walk = fs.unlink, fs.rename, fs.replace, fs.rmdir, fs.stat, fs.walk
        self.open, self.fdopen, self.close, self.write, self.read = fs.os_open, fs.os_fdopen, fs.os_close, fs.os_write, fs.os_read

    def __getattr__(self, name):
        return getattr(_real_os, name)


class GlobShim(object):
    """Stands in for a ``glob`` module attribute of a patched module."""

    def __init__(self, fs):
        self._fs = fs
        self.glob = fs.glob

    def iglob(self, *a, **kw):
        return iter(self._fs.glob(*a, **kw))

    def __getattr__(self, name):
        import glob as _g

        return getattr(_g, name)


class ShutilShim(object):
    """Stands in for a ``shutil`` module attribute of a patched module."""

    def __init__(self, fs):
        self._fs = fs
        self.rmtree, self.move, self.copyfile, self.copy, self.copy2 = fs.rmtree, fs.rename, fs.copyfile, fs.copyfile, fs.copyfile

    def __getattr__(self, name):
        import shutil as _s

        return getattr(_s, name)


class TimeShim(object):
    """Simulated clock: ``time()`` returns ``now`` and then advances it by the
    next increment of an explicit schedule (seeded by the generator; includes
    zero, large forward and backward jumps)."""

    def __init__(self, start=1000.0, steps=None):
        self.now = start
        self.steps = list(steps or [0.0])
        self.i = 0
        self.calls = 0
        self.simulated_span = 0.0

    def time(self):
        self.calls += 1
        t = self.now
        step = self.steps[self.i % len(self.steps)]
        self.i += 1
        self.now += step
        self.simulated_span += abs(step)
        return t

    def sleep(self, s):
        self.now += s
        self.simulated_span += abs(s)

    def __getattr__(self, name):
        return getattr(_real_time, name)


@contextlib.contextmanager
def installed(fs, modules, clock=None, extra=None):
    """Rebind the seam names in the given repo modules (in this process only)
    and restore them afterwards.  ``modules`` maps module object -> iterable of
    names among open / os / makedirs / time."""
    shim = OsShim(fs)
    saved = []
    try:
        for mod, names in modules.items():
            for n in names:
                had = n in mod.__dict__
                saved.append((mod, n, had, mod.__dict__.get(n)))
                if n == "open":
                    mod.open = fs.open
                elif n == "os":
                    mod.os = shim
                elif n == "makedirs":
                    mod.makedirs = fs.makedirs
                elif n == "time":
                    if clock is None:
                        raise HarnessError("time seam requested without a clock")
                    mod.time = clock
                else:
                    mod.__dict__[n] = (extra or {})[n]
            # a module that has the file-system seam and (now or after an edit)
            # also imports glob / shutil gets those on the simulated tree too
            if "os" in names or "open" in names:
                import glob as _g
                import shutil as _sh

                for n, real, mk in (("glob", _g, GlobShim), ("shutil", _sh, ShutilShim)):
                    if mod.__dict__.get(n) is real:
                        saved.append((mod, n, True, real))
                        mod.__dict__[n] = mk(fs)
        yield shim
    finally:
        for mod, n, had, old in reversed(saved):
            if had:
                mod.__dict__[n] = old
            else:
                mod.__dict__.pop(n, None)


@contextlib.contextmanager
def captured_stdio():
    out, err = io.StringIO(), io.StringIO()
    so, se, argv = sys.stdout, sys.stderr, sys.argv
    sys.stdout, sys.stderr = out, err
    try:
        yield out, err
    finally:
        sys.stdout, sys.stderr, sys.argv = so, se, argv
