"""Simulation C — simulated file system + seeded scheduler: the test-case
generator's worker commands run as baton-scheduled tasks on a SimFS (C24);
raw picture files at rest (C23).  DESIGN.md section 6.
"""

import hashlib
import io
import os
import random
import shutil
import subprocess
import sys as _sys
import tempfile
from collections import Counter

from sim.core import Spec, Outcome, OK, VIOLATION, DISCARD, HarnessError, exc_sig, short_tb, shrink_list, register, derive_seed, VERIF, REPO, PY
from sim import simfs as S
from sim.sched import Baton, Policy, ExplicitPolicy, TaskCrashed

import vc2_conformance.file_format as file_format  # noqa: E402
import vc2_conformance.scripts.vc2_test_case_generator.cli as cli_mod  # noqa: E402
import vc2_conformance.scripts.vc2_test_case_generator.worker as worker_mod  # noqa: E402
import vc2_conformance_data  # noqa: E402

CSV = os.path.join(VERIF, "corpus", "codec_features.csv")
PICTURES = [os.path.join(VERIF, "corpus", "pictures", n + ".raw") for n in ("square", "wide", "tall")]
CODECS = ["minimal", "ld", "lossless", "frag", "fields", "c420", "asym", "customqm",
          # several near-identical columns of the twin corpus at once: their
          # worker commands interleave on one simulated file system
          "twins:minimal|minimal_twin", "twins:qm_a|qm_b|minimal_pb", "twins:frag|frag2", "twins:ld|ld_pb|lossless", "twins:tw 4:4:4|tw 4_4_4|tw 4\\.4\\.4"]


def codec_args(codec):
    """(csv path, --codecs regex) of a corpus column spec."""
    if codec.startswith("twins:"):
        return os.path.join(VERIF, "corpus", "codec_features_twins.csv"), "^(%s)$" % codec[6:]
    return CSV, "^%s$" % codec


from sim.workloads import swap_natural_pictures  # noqa: E402


def seams():
    """Which module globals carry the file-system seam.  ``cli.makedirs`` is
    normally the real ``os.makedirs`` (an alias bound at import time), which can
    only be intercepted under its name in ``cli``; if the repository implements
    it in Python instead, that implementation is left in place and runs for
    real on the simulated file system through its own module's ``os``."""
    m = {cli_mod: ["open", "os"], file_format: ["open", "os"]}
    if cli_mod.makedirs is os.makedirs:
        m[cli_mod] = ["open", "os", "makedirs"]
    else:
        mod = _sys.modules.get(getattr(cli_mod.makedirs, "__module__", None))
        if mod is not None and mod is not cli_mod and hasattr(mod, "os"):
            m[mod] = ["os"]
    return m



def run_cli(fs, argv):
    """cli.main in-process on the simulated FS; returns (rc, stdout, stderr)."""
    import logging

    with S.installed(fs, seams()):
        with S.captured_stdio() as (out, err):
            _sys.argv = ["vc2-test-case-generator"] + argv
            lvl = logging.getLogger().level
            logging.getLogger().setLevel(logging.ERROR)
            try:
                rc = cli_mod.main(argv)
            except SystemExit as e:
                rc = "SystemExit(%r)" % (e.code,)
            finally:
                logging.getLogger().setLevel(lvl)
    return rc, out.getvalue(), err.getvalue()


def rel_tree(fs, root):
    pre = root.rstrip("/") + "/"
    return {p[len(pre) :]: bytes(b) for p, b in fs.files.items() if p.startswith(pre)}


def tree_digest(tree):
    h = hashlib.sha256()
    for p in sorted(tree):
        h.update(p.encode() + b"\0" + hashlib.sha256(tree[p]).digest())
    return h.hexdigest()[:24]


_SERIAL = {}
_COMMANDS = {}


def serial_tree(codec):
    """Reference: the serial run of the real CLI for one codec column."""
    if codec not in _SERIAL:
        swap_natural_pictures()
        fs = S.SimFS("/sim")
        fs.record = False
        csvp, rx = codec_args(codec)
        rc, out, err = run_cli(fs, [csvp, "--output", "/sim/out", "--codecs", rx])
        if rc != 0:
            raise HarnessError("serial generation failed for %s: rc=%r %s" % (codec, rc, err[-300:]))
        _SERIAL[codec] = rel_tree(fs, "/sim/out")
    return _SERIAL[codec]


def parallel_commands(codec):
    if codec not in _COMMANDS:
        swap_natural_pictures()
        fs = S.SimFS("/sim")
        fs.record = False
        csvp, rx = codec_args(codec)
        rc, out, err = run_cli(fs, [csvp, "--parallel", "--output", "/sim/out", "--codecs", rx])
        if rc != 0:
            raise HarnessError("--parallel failed for %s: rc=%r %s" % (codec, rc, err[-300:]))
        cmds = []
        for line in out.splitlines():
            if line.startswith("vc2-test-case-generator-worker "):
                cmds.append(line.split(" ", 1)[1].strip())
        if fs.files:
            raise HarnessError("--parallel wrote files")
        _COMMANDS[codec] = cmds
    return _COMMANDS[codec]


_REF = {}


def reference(codec):
    """The emitted worker commands and the serial tree of one corpus column,
    computed once per process from pristine global tables; records a failure of
    either real CLI run and any mutation of the library's global tables."""
    from sim import core as _core

    if codec not in _REF:
        ref = {"cmds": None, "serial": None, "error": None, "mutated": []}
        _core.restore_global_tables() if _core._PRISTINE else _core.global_tables_digest()
        before = _core.global_tables_digest()
        try:
            ref["cmds"] = parallel_commands(codec)
            ref["serial"] = serial_tree(codec)
        except Exception as e:  # noqa: BLE001
            ref["error"] = e
        after = _core.global_tables_digest()
        if after != before:
            ref["mutated"] = sorted(n for n in after if after[n] != before.get(n))
            _core.restore_global_tables()
        _REF[codec] = ref
    return _REF[codec]


def run_tasks(codes, policy, fs=None, crash=None):
    """Run worker commands as baton tasks on a fresh SimFS."""
    import logging

    swap_natural_pictures()
    fs = fs or S.SimFS("/sim")
    fs.record = False
    baton = Baton(policy, crash=crash)
    fs.hook = baton.yield_point

    def make(code):
        def task():
            worker_mod.main([code])

        return task

    lvl = logging.getLogger().level
    logging.getLogger().setLevel(logging.ERROR)
    try:
        with S.installed(fs, seams()):
            with S.captured_stdio():
                excs = baton.run([make(c) for c in codes])
    finally:
        logging.getLogger().setLevel(lvl)
        fs.hook = None
    return fs, baton, excs


BOOT = r"""
import sys
sys.path.insert(0, %(repo)r)
import vc2_conformance_data as D
del D.NATURAL_PICTURES_FILENAMES[:]
D.NATURAL_PICTURES_FILENAMES.extend(%(pictures)r)
import logging
logging.getLogger().setLevel(logging.ERROR)
mode = sys.argv[1]
if mode == "cli":
    from vc2_conformance.scripts.vc2_test_case_generator.cli import main
    sys.exit(main(sys.argv[2:]))
else:
    from vc2_conformance.scripts.vc2_test_case_generator.worker import main
    for code in sys.argv[2:]:
        main([code])
"""


def fresh_python(args, hash_seed, timeout=600):
    env = dict(os.environ)
    env["PYTHONHASHSEED"] = str(hash_seed)
    env.pop("VERIF_NO_REEXEC", None)
    p = subprocess.run(
        [PY, "-c", BOOT % {"repo": REPO, "pictures": PICTURES}] + args,
        env=env, stdout=subprocess.PIPE, stderr=subprocess.PIPE, timeout=timeout, cwd="/",
    )
    return p.returncode, p.stdout.decode(errors="replace"), p.stderr.decode(errors="replace")


def real_tree(root):
    out = {}
    for d, _dirs, files in os.walk(root):
        for f in files:
            full = os.path.join(d, f)
            with open(full, "rb") as fh:
                out[os.path.relpath(full, root)] = fh.read()
    return out


TWIN_CSVS = ["codec_features_twins.csv", "codec_features_twins_rev.csv"]
# families of near-identical columns in the twin corpus (tools/gen_twins_csv.py)
TWIN_FAMILIES = {
    "minimal": ["minimal", "minimal_twin", "minimal_pb"],
    "qm": ["qm_a", "qm_b", "qm_c"],
    "fields": ["fields"],
    "lossless": ["lossless", "lossless_10bit"],
    "ld": ["ld", "ld_pb", "ld_irregular"],
    "frag": ["frag", "frag2"],
    "names": ["tw 4:4:4", "tw 4_4_4", "tw 4.4.4"],
    "basefmt": ["w176", "after_w176"],
}
TWIN_QUICK = [["minimal", "qm", "names", "basefmt"], ["lossless", "ld", "frag", "fields"]]


def fresh_python_start(args, hash_seed):
    env = dict(os.environ)
    env["PYTHONHASHSEED"] = str(hash_seed)
    env.pop("VERIF_NO_REEXEC", None)
    return subprocess.Popen([PY, "-c", BOOT % {"repo": REPO, "pictures": PICTURES}] + args, env=env, stdout=subprocess.PIPE, stderr=subprocess.PIPE, cwd="/")


POLICIES = ["random", "rtc", "rtc", "pct", "pct", "coarse", "coarse", "bursty", "bursty"]


class C24(Spec):
    prop = "C24"
    sim = "C"
    guard_globals = True
    title = "Test case generation is deterministic and schedule-independent"
    quick_runs = 160
    thorough_runs = 6000
    chunk = 5
    chunk_timeout = 1500
    tick_unit = "scheduler yield points (simulated file-system operations)"
    state_measure = "distinct (codec column, policy, task-subset size, context-switch bucket, max files open for write) tuples"
    components = {
        "real": [
            "vc2_conformance.scripts.vc2_test_case_generator.cli.main (serial and --parallel, in-process)",
            "vc2_conformance.scripts.vc2_test_case_generator.worker.main (real unpickling of the real partials)",
            "all encoder/decoder test case generators, encoder, serialiser, validator (model answers), file_format.write",
        ],
        "stub": [
            "file system and os/makedirs (sim.simfs) bound to the cli and file_format module globals",
            "worker processes are real threads of one interpreter released one at a time by the baton scheduler (sim.sched); a fresh-interpreter arm (run by the check after the batch) covers process and hash-seed independence",
            "natural pictures swapped for the test suite's three small pictures (corpus/pictures)",
            "codec configurations: corpus/codec_features.csv (eight tiny columns derived from tests/sample_codec_features.csv)",
        ],
    }
    assumptions = [
        "threads-for-processes is sound only if library code keeps no process-global mutated state; backed by the fresh-interpreter arm and by comparing against the serial in-process run",
        "pre-emption only at simulated file-system operations (every open/read/write/close/mkdir/listdir/stat)",
    ]
    rule = (
        "each run = the worker commands emitted by the real 'vc2-test-case-generator --parallel' for one codec column "
        "(all of them, or a seeded subset), executed as baton-scheduled tasks on a fresh simulated file system under a "
        "seeded policy (uniform random at every FS operation, run-to-completion in a random order, PCT with d priority "
        "change points, switch-on-open/close/mkdir, bursty). Judged: no task raises and the final tree equals the serial "
        "run's tree (for subsets: equals the same commands run one after another, which must itself be contained in the "
        "serial tree). non-trivial = >= 1 context switch; distinct = distinct schedule digest."
    )

    def setup(self, verif_seed, tier):
        from sim import receivers as R

        R.use_real_levels()
        self.verif_seed = verif_seed

    def generate(self, rng, idx, tier):
        if idx % 80 == 39:
            # multi-column arm (fresh interpreters only): ONE serial process
            # generating several near-identical ("twin") columns, against the
            # emitted worker commands run in separate fresh processes
            if tier == "thorough":
                fams = sorted(rng.sample(sorted(TWIN_FAMILIES), rng.choice([2, 3, 3, 4])))
                csvname = rng.choice(TWIN_CSVS)
            else:
                fams = TWIN_QUICK[(idx // 80) % 2]
                csvname = TWIN_CSVS[(idx // 80) % 2]
            return {
                "multi": True,
                "csv": csvname,
                "families": fams,
                "hash_seeds": [rng.randrange(1, 1 << 31) for _ in range(3)],
                "groups": rng.choice([2, 3]),
                "order_seed": rng.randrange(1 << 30),
            }
        if idx % 80 == 79:
            # fresh-interpreter arm: real processes, run one after another in a
            # seeded permuted order, each with its own PYTHONHASHSEED
            return {
                "fresh": True,
                "codec": rng.choice(CODECS),
                "hash_seeds": [rng.randrange(1, 1 << 31) for _ in range(4)],
                "groups": rng.choice([2, 3, 4]),
                "order_seed": rng.randrange(1 << 30),
                "serial_too": rng.random() < 0.5,
            }
        codec = CODECS[derive_seed(self.verif_seed, "C-codec", self.prop, idx // 5) % len(CODECS)] if rng.random() < 0.8 else "minimal"
        # no repository code runs while generating: the task subset is named by
        # (size, seed) and resolved against the emitted command list at run time
        r = rng.random()
        take = None if r < 0.25 else rng.choice([2, 2, 3, 4, 6, 8])
        kind = rng.choice(POLICIES)
        params = {}
        if kind == "bursty":
            params["p"] = rng.choice([0.001, 0.01, 0.05, 0.3])
        if kind == "coarse":
            params["p"] = rng.choice([0.1, 0.5, 1.0])
        if kind == "pct":
            d = rng.choice([1, 2, 3, 5])
            params["change_points"] = sorted(rng.randrange(1, 2500 * (take or 26)) for _ in range(d))
        case = {"codec": codec, "take": take, "take_seed": rng.randrange(1 << 30), "policy": kind, "params": params, "sched_seed": rng.randrange(1 << 48)}
        if rng.random() < 0.2:
            # crash-and-rerun arm: one worker is killed at one of its yield
            # points (its partial files stay on the simulated disk), then the
            # whole set of commands is run again over the same tree
            case["crash"] = {"task": rng.randrange(64), "at": rng.choice([1, 2, 5, 20, 100, rng.randrange(1, 400), rng.randrange(1, 3000)])}
        return case

    @staticmethod
    def resolve_tasks(case, ncmd):
        if "tasks" in case:
            return [t for t in case["tasks"] if t < ncmd]
        if case.get("take") is None:
            return list(range(ncmd))
        return sorted(random.Random(case["take_seed"]).sample(range(ncmd), min(case["take"], ncmd)))

    def execute_fresh(self, case):
        stats = Counter()
        codec = case["codec"]
        scratch = tempfile.mkdtemp(prefix="vc2_c24_", dir="/var/tmp")
        events = [("fresh", codec, case["hash_seeds"], case["groups"], case["order_seed"])]
        key = "fresh|%s|groups=%d" % (codec, case["groups"])

        def viol(sig, detail):
            return Outcome(VIOLATION, events, sig=sig, detail=detail, stats=stats, nontrivial=True, key=key)

        try:
            out = os.path.join(scratch, "out")
            hs = case["hash_seeds"]
            csvp, rx = codec_args(codec)
            rc, so, se = fresh_python(["cli", csvp, "--parallel", "--output", out, "--codecs", rx], hs[0])
            if rc != 0:
                return viol("C24/fresh/parallel-emission-failed", "cli --parallel failed in a fresh interpreter (hash seed %d): rc=%r %s" % (hs[0], rc, se[-400:]))
            codes = [l.split(" ", 1)[1].strip() for l in so.splitlines() if l.startswith("vc2-test-case-generator-worker ")]
            ref = reference(codec)
            if ref["error"] is not None or ref["mutated"]:
                return viol("C24/fresh/reference-unavailable", "in-process reference run failed or mutated global tables: %r %r" % (ref["error"], ref["mutated"]))
            if len(codes) != len(ref["cmds"]):
                return viol("C24/fresh/command-count", "%d commands emitted under hash seed %d, %d in-process" % (len(codes), hs[0], len(ref["cmds"])))
            order = list(range(len(codes)))
            random.Random(case["order_seed"]).shuffle(order)
            g = case["groups"]
            for k in range(g):
                part = [codes[i] for i in order[k::g]]
                rc, so, se = fresh_python(["worker"] + part, hs[(k + 1) % len(hs)])
                stats["fresh_interpreters"] += 1
                if rc != 0:
                    return viol("C24/fresh/worker-failed", "worker commands failed in a fresh interpreter (hash seed %d): %s" % (hs[(k + 1) % len(hs)], se[-600:]))
            tree = real_tree(out)
            serial = ref["serial"]
            events.append(("tree", tree_digest(tree), len(tree)))
            if tree != serial:
                diff = sorted(p for p in set(tree) | set(serial) if tree.get(p) != serial.get(p))[:6]
                return viol("C24/fresh/tree-differs", "tree written by fresh interpreters (hash seeds %r, order seed %d) differs from the in-process serial run: %r" % (hs, case["order_seed"], diff))
            if case.get("serial_too"):
                out2 = os.path.join(scratch, "out2")
                rc, so, se = fresh_python(["cli", csvp, "--output", out2, "--codecs", rx], hs[-1])
                stats["fresh_interpreters"] += 1
                if rc != 0:
                    return viol("C24/fresh/serial-failed", "serial cli failed in a fresh interpreter: rc=%r %s" % (rc, se[-400:]))
                if real_tree(out2) != serial:
                    return viol("C24/fresh/serial-tree-differs", "serial run in a fresh interpreter (hash seed %d) differs from the in-process serial run" % hs[-1])
            stats["runs:fresh-interpreter-arm"] += 1
            stats["hash_seeds_used"] += len(set(hs))
            return Outcome(OK, events, stats=stats, nontrivial=True, key=key)
        finally:
            shutil.rmtree(scratch, ignore_errors=True)

    def execute_multi(self, case):
        stats = Counter()
        cols = [c for f in case["families"] for c in TWIN_FAMILIES.get(f, [])]
        csvpath = os.path.join(VERIF, "corpus", case["csv"])
        import re as _re

        regex = "^(%s)$" % "|".join(_re.escape(c) for c in cols)
        scratch = tempfile.mkdtemp(prefix="vc2_c24m_", dir="/var/tmp")
        events = [("multi", case["csv"], list(case["families"]), case["hash_seeds"], case["groups"], case["order_seed"])]
        key = "multi|%s|%s" % (case["csv"], "+".join(case["families"]))
        hs = case["hash_seeds"]

        def viol(sig, detail):
            return Outcome(VIOLATION, events, sig=sig, detail=detail, stats=stats, nontrivial=True, key=key)

        serial_proc = None
        try:
            if not cols:
                return Outcome(DISCARD, events, stats=stats)
            out_s, out_w = os.path.join(scratch, "serial"), os.path.join(scratch, "workers")
            # the serial run (one process for all the columns) proceeds in the
            # background in its own directory while the worker commands run
            serial_proc = fresh_python_start(["cli", csvpath, "--output", out_s, "--codecs", regex], hs[0])
            rc, so, se = fresh_python(["cli", csvpath, "--parallel", "--output", out_w, "--codecs", regex], hs[1])
            if rc != 0:
                return viol("C24/multi/parallel-emission-failed", "cli --parallel failed for columns %r: rc=%r %s" % (cols, rc, se[-400:]))
            codes = [l.split(" ", 1)[1].strip() for l in so.splitlines() if l.startswith("vc2-test-case-generator-worker ")]
            order = list(range(len(codes)))
            random.Random(case["order_seed"]).shuffle(order)
            g = max(case["groups"], (len(codes) + 59) // 60)
            for k in range(g):
                part = [codes[i] for i in order[k::g]]
                if not part:
                    continue
                rc, so, se = fresh_python(["worker"] + part, hs[(k + 2) % len(hs)])
                stats["fresh_interpreters"] += 1
                if rc != 0:
                    return viol("C24/multi/worker-failed", "worker commands failed in a fresh interpreter: %s" % se[-600:])
            try:
                so, se = serial_proc.communicate(timeout=900)
            except subprocess.TimeoutExpired:
                raise HarnessError("serial multi-column run exceeded 900 s")
            rc = serial_proc.returncode
            serial_proc = None
            stats["fresh_interpreters"] += 2
            if rc != 0:
                return viol("C24/multi/serial-failed", "serial cli failed for columns %r in a fresh interpreter: rc=%r %s" % (cols, rc, se.decode(errors="replace")[-400:]))
            serial, tree = real_tree(out_s), real_tree(out_w)
            events.append(("trees", tree_digest(serial), len(serial), tree_digest(tree), len(tree)))
            stats["runs:multi-column-arm"] += 1
            stats["multi:columns"] += len(cols)
            stats["multi:worker-commands"] += len(codes)
            if tree != serial:
                diff = sorted(p for p in set(tree) | set(serial) if tree.get(p) != serial.get(p))
                return viol(
                    "C24/multi/serial-differs-from-workers",
                    "one serial process generating columns %r (%s) wrote %d files, the %d emitted worker commands run in %d fresh processes wrote %d; %d paths differ, e.g. %r"
                    % (cols, case["csv"], len(serial), len(codes), g, len(tree), len(diff), diff[:6]),
                )
            return Outcome(OK, events, stats=stats, nontrivial=True, key=key)
        finally:
            if serial_proc is not None:
                serial_proc.kill()
                serial_proc.communicate()
            shutil.rmtree(scratch, ignore_errors=True)

    def explicate(self, case):
        """Replace the seeded policy by the explicit schedule it produced."""
        if "schedule" in case or case.get("fresh") or case.get("multi"):
            return case
        ref = reference(case["codec"])
        if ref["cmds"] is None or ref["mutated"] or ref["error"] is not None:
            return case
        cmds = ref["cmds"]
        tasks = self.resolve_tasks(case, len(cmds))
        codes = [cmds[i] for i in tasks]
        crash = {case["crash"]["task"] % len(codes): case["crash"]["at"]} if case.get("crash") and codes else None
        _fs, baton, _ = run_tasks(codes, Policy(case["policy"], random.Random(case["sched_seed"]), case["params"]), crash=crash)
        out = {"codec": case["codec"], "tasks": tasks, "schedule": baton.trace, "from_policy": case["policy"]}
        if case.get("crash"):
            out["crash"] = dict(case["crash"])
        return out

    def shrink(self, case):
        if case.get("multi"):
            for fams in shrink_list(case["families"]):
                if fams:
                    yield dict(case, families=fams)
            if case["groups"] > 1:
                yield dict(case, groups=1)
            return
        if case.get("fresh"):
            if case["groups"] > 1:
                yield dict(case, groups=1)
            if case.get("serial_too"):
                yield dict(case, serial_too=False)
            return
        if "schedule" not in case:
            return
        sched = case["schedule"]
        # fewer tasks
        for i in range(len(case["tasks"])):
            keep = [t for j, t in enumerate(case["tasks"]) if j != i]
            if len(keep) < 1:
                continue
            remap = {}
            for j in range(len(case["tasks"])):
                if j != i:
                    remap[j] = len(remap)
            ns = [[remap[t], n] for t, n in sched if t in remap]
            yield dict(case, tasks=keep, schedule=_merge(ns))
        # fewer context switches: drop one run, merging its neighbours
        if len(sched) > 1:
            for cand in shrink_list(sched):
                yield dict(case, schedule=_merge(cand))

    def execute(self, case):
        if case.get("fresh"):
            return self.execute_fresh(case)
        if case.get("multi"):
            return self.execute_multi(case)
        stats = Counter()
        codec = case["codec"]
        ref = reference(codec)
        if ref["error"] is not None:
            e = ref["error"]
            return Outcome(VIOLATION, [("case", codec), ("reference-run-failed", type(e).__name__)], sig=exc_sig("C24/reference-run-failed", e),
                           detail="the real 'vc2-test-case-generator' (--parallel emission or serial run) failed for corpus column %s:\n%s" % (codec, short_tb(e) if not isinstance(e, HarnessError) else str(e)), stats=stats, nontrivial=True, key="%s|reference-failed" % codec)
        if ref["mutated"]:
            return Outcome(VIOLATION, [("case", codec), ("reference-run-mutated", ref["mutated"])], sig="C24/serial-run-mutated-global-table/%s" % ",".join(ref["mutated"]),
                           detail="the serial run for corpus column %s changed the library's process-global table(s) %s: later generators/configurations in the same process see different tables than fresh worker processes do" % (codec, ", ".join(ref["mutated"])), stats=stats, nontrivial=True, key="%s|reference-mutated" % codec)
        cmds = ref["cmds"]
        case = dict(case, tasks=self.resolve_tasks(case, len(cmds)))
        codes = [cmds[i] for i in case["tasks"]]
        if "schedule" in case:
            policy = ExplicitPolicy(case["schedule"])
            pname = "explicit"
        else:
            policy = Policy(case["policy"], random.Random(case["sched_seed"]), case["params"])
            pname = case["policy"]
        crash = None
        if case.get("crash") and codes:
            crash = {case["crash"]["task"] % len(codes): case["crash"]["at"]}
        fs, baton, excs = run_tasks(codes, policy, crash=crash)
        crashed = [t for t, e in excs.items() if isinstance(e, TaskCrashed)]
        if crashed:
            # the re-run: every command again, one after another, over the
            # tree the interrupted run left behind
            stats["crash:worker-killed"] += 1
            for t in crashed:
                excs[t] = None
            fs.hook = None
            fs, baton2, excs2 = run_tasks(codes, ExplicitPolicy([]), fs=fs)
            for t, e in excs2.items():
                if e is not None:
                    excs[t] = e
        tree = rel_tree(fs, "/sim/out")
        sched_digest = hashlib.sha256(repr(baton.trace).encode()).hexdigest()[:16]
        events = [("case", codec, list(case["tasks"]), pname), ("schedule", sched_digest, baton.step, baton.switches), ("tree", tree_digest(tree), len(tree))]
        stats["policy:" + pname] += 1
        stats["yield_points"] += baton.step
        stats["context_switches"] += baton.switches
        stats["max_open_for_write"] = fs.max_open_for_write
        stats["mkdir_ops"] += fs.counts.get("mkdir", 0)
        full = len(case["tasks"]) == len(cmds)
        stats["runs:full-set" if full else "runs:subset"] += 1
        swb = 0 if baton.switches == 0 else len(str(baton.switches))
        key = "%s|%s|n=%d|sw~1e%d|open=%d" % (codec, pname, len(codes), swb, fs.max_open_for_write)
        nontrivial = baton.switches > len(codes)

        def viol(sig, detail):
            return Outcome(VIOLATION, events, sig=sig, detail=detail, stats=stats, nontrivial=nontrivial, key=key, ticks=baton.step)

        failed = {t: e for t, e in excs.items() if e is not None}
        if failed:
            t, e = sorted(failed.items())[0]
            return viol(exc_sig("C24/task-raised", e), "worker task %d (command #%d of %s) raised under schedule %s:\n%s" % (t, case["tasks"][t], codec, sched_digest, short_tb(e)))
        serial = ref["serial"]
        if full:
            want = serial
            refname = "serial run"
        else:
            sfs, _b, sexcs = run_tasks(codes, ExplicitPolicy([]))
            if any(e is not None for e in sexcs.values()):
                e = [e for e in sexcs.values() if e is not None][0]
                return viol(exc_sig("C24/task-raised-sequentially", e), "worker task raised even when run alone in order:\n%s" % short_tb(e))
            want = rel_tree(sfs, "/sim/out")
            refname = "same commands run one after another"
            for p, b in want.items():
                if serial.get(p) != b:
                    return viol("C24/sequential-subset-differs-from-serial", "file %s written by the worker commands differs from (or is missing in) the serial run" % p)
        if tree != want:
            only_a = sorted(set(tree) - set(want))[:5]
            only_b = sorted(set(want) - set(tree))[:5]
            diff = sorted(p for p in set(tree) & set(want) if tree[p] != want[p])[:5]
            return viol(
                "C24/tree-differs",
                "tree after the scheduled run differs from the %s: extra=%r missing=%r different=%r (schedule %s, %d switches)" % (refname, only_a, only_b, diff, sched_digest, baton.switches),
            )
        return Outcome(OK, events, stats=stats, nontrivial=nontrivial, key=key, ticks=baton.step)

    def extra_evidence(self, merged):
        st = merged["stats"]
        return {
            "policies": {k[7:]: v for k, v in st.items() if k.startswith("policy:")},
            "scheduler": {"yield_points": st.get("yield_points", 0), "context_switches": st.get("context_switches", 0), "mkdir_ops": st.get("mkdir_ops", 0)},
        }


def _merge(rle):
    out = []
    for t, n in rle:
        if out and out[-1][0] == t:
            out[-1][1] += n
        else:
            out.append([t, n])
    return out


register(C24())


# --------------------------------------------------------------------------
# C23 — raw picture files round-trip and comparisons are exact
# --------------------------------------------------------------------------

import json as _json  # noqa: E402
import re as _re  # noqa: E402

import vc2_conformance.scripts.vc2_picture_compare as compare_mod  # noqa: E402
from vc2_conformance.pseudocode.video_parameters import set_source_defaults  # noqa: E402
from vc2_data_tables import BaseVideoFormats, ColorDifferenceSamplingFormats, PictureCodingModes, SourceSamplingModes  # noqa: E402
from sim import workloads as W  # noqa: E402
from sim.clichan import h_read_raw, raw_sizes  # noqa: E402

C23_SEAMS = {compare_mod: ["open", "os"], file_format: ["open", "os"]}


def c23_vp(fmt):
    vp = set_source_defaults(BaseVideoFormats.hd1080p_50)
    vp["frame_width"] = fmt["w"]
    vp["frame_height"] = fmt["h"]
    vp["clean_width"] = fmt["w"]
    vp["clean_height"] = fmt["h"]
    vp["color_diff_format_index"] = ColorDifferenceSamplingFormats(fmt["cdf"])
    vp["source_sampling"] = SourceSamplingModes(0)
    vp["luma_offset"] = fmt["luma_off"]
    vp["luma_excursion"] = fmt["luma_exc"]
    vp["color_diff_offset"] = fmt["cd_off"]
    vp["color_diff_excursion"] = fmt["cd_exc"]
    return vp


def c23_dims(fmt):
    return W.component_dims(dict(fmt))


def c23_picture(fmt, seed, kind, pic_num):
    rng = random.Random(derive_seed(seed, "c23", kind, 0))
    pic = {"pic_num": pic_num}
    for comp, (w, h, d) in c23_dims(fmt).items():
        top = (1 << d) - 1
        if kind == "noise":
            rows = [[rng.randint(0, top) for _ in range(w)] for _ in range(h)]
        elif kind == "max":
            rows = [[top] * w for _ in range(h)]
        elif kind == "zero":
            rows = [[0] * w for _ in range(h)]
        elif kind == "steps":
            # large values in the first part of the raster, small ones after a
            # seeded position (letterbox-like): later samples need fewer bytes
            n = w * h
            cut = rng.randrange(1, n) if n > 1 else 1
            small = rng.choice([0, 1, 64, 255])
            flat = [top if i < cut else min(small, top) for i in range(n)]
            if rng.random() < 0.3:
                flat.reverse()
            rows = [flat[y * w : (y + 1) * w] for y in range(h)]
        else:
            rows = [[(top >> ((x + y) % (d + 1))) for x in range(w)] for y in range(h)]
        pic[comp] = rows
    return pic


def c23_apply(fs, stem, dims, fault):
    """Apply one at-rest fault to the stored files ``stem``.raw / ``stem``.json;
    returns a label of what was hit."""
    rawp = stem + ".raw"
    jsp = stem + ".json"
    k = fault["k"]
    if k in ("sample_bit", "padding_bit"):
        raw = bytearray(fs.get(rawp))
        sizes = raw_sizes(dims)
        # locate the sample
        pos = 0
        comp = fault["comp"]
        for c in ("Y", "C1", "C2"):
            w, h, d, bps = sizes[c]
            if c == comp:
                n = w * h
                if n == 0:
                    return "noop"
                s = fault["sample"] % n
                if k == "sample_bit":
                    bit = fault["bit"] % d
                else:
                    if bps * 8 == d:
                        return "noop"
                    bit = d + fault["bit"] % (bps * 8 - d)
                off = pos + s * bps + bit // 8
                if off >= len(raw):
                    return "noop"
                raw[off] ^= 1 << (bit % 8)
                fs.put(rawp, raw)
                return k
            pos += w * h * bps
        return "noop"
    if k == "trunc_raw":
        raw = fs.get(rawp)
        fs.put(rawp, raw[: max(0, len(raw) - fault["n"])])
        return k
    if k == "extend_raw":
        fs.put(rawp, fs.get(rawp) + bytes(fault["n"]))
        return k
    if k in ("json_picnum", "json_vp", "json_pcm"):
        try:
            meta = _json.loads(fs.get(jsp).decode("utf-8"))
            int(meta["picture_number"]), meta["video_parameters"][fault.get("key", "frame_width")], meta["picture_coding_mode"] + 0
        except Exception:  # noqa: BLE001 — already damaged by an earlier fault
            return "noop"
        if k == "json_picnum":
            meta["picture_number"] = str((int(meta["picture_number"]) + fault["delta"]) & 0xFFFFFFFF)
        elif k == "json_vp":
            key = fault["key"]
            v = meta["video_parameters"][key]
            meta["video_parameters"][key] = (not v) if isinstance(v, bool) else v + 1
        else:
            meta["picture_coding_mode"] = 1 - meta["picture_coding_mode"]
        fs.put(jsp, _json.dumps(meta).encode("utf-8"))
        return k
    if k == "json_missing":
        del fs.files[jsp]
        return k
    if k == "json_trunc":
        b = fs.get(jsp)
        fs.put(jsp, b[: fault["at"] % max(1, len(b))])
        return k
    if k == "json_byte":
        b = bytearray(fs.get(jsp))
        if not b:
            return "noop"
        b[fault["at"] % len(b)] = fault["v"]
        fs.put(jsp, b)
        return k
    raise ValueError(k)


CORRUPT = "corrupt"
VP_KEYS = set(set_source_defaults(BaseVideoFormats.hd1080p_50).keys())


def h_meta(fs, path):
    """Harness-side reading of a metadata file: None if absent, CORRUPT if it
    is not valid UTF-8 JSON with the documented fields and in-range values."""
    if path not in fs.files:
        return None
    try:
        m = _json.loads(fs.get(path).decode("utf-8"))
        vp = m["video_parameters"]
        ok = (
            set(m) == {"video_parameters", "picture_coding_mode", "picture_number"}
            and set(vp) == VP_KEYS
            and all(isinstance(vp[k], (int, bool)) for k in vp)
            and isinstance(vp["top_field_first"], bool)
            and isinstance(m["picture_coding_mode"], int) and m["picture_coding_mode"] in (0, 1)
            and int(m["picture_number"]) >= 0 and str(m["picture_number"]).strip().isdigit()
            and vp["color_diff_format_index"] in (0, 1, 2) and vp["source_sampling"] in (0, 1)
            and vp["color_primaries_index"] in (0, 1, 2, 3, 4, 5) and vp["color_matrix_index"] in (0, 1, 2, 3, 4, 5) and vp["transfer_function_index"] in (0, 1, 2, 3, 4, 5, 6)
            and all(isinstance(vp[k], int) and not isinstance(vp[k], bool) and vp[k] >= 0 for k in ("frame_width", "frame_height", "luma_excursion", "color_diff_excursion", "luma_offset", "color_diff_offset"))
            and vp["luma_excursion"] >= 1 and vp["color_diff_excursion"] >= 1 and vp["frame_width"] >= 1 and vp["frame_height"] >= 1
        )
        if not ok:
            return CORRUPT
    except Exception:  # noqa: BLE001
        return CORRUPT
    return m


def h_dims_from_meta(m):
    vp = m["video_parameters"]
    return {
        k: v
        for k, v in __import__("sim.bytechan", fromlist=["h_dims"]).h_dims(vp, m["picture_coding_mode"]).items()
    }


class C23(Spec):
    prop = "C23"
    sim = "C"
    title = "Raw picture files round-trip and comparisons are exact"
    quick_runs = 60000
    thorough_runs = 2000000
    chunk = 500
    state_measure = "distinct (depth class, subsampling, coding mode, fault-kind set, expected verdict, exit status) tuples"
    components = {
        "real": [
            "vc2_conformance.file_format.write / read",
            "vc2_conformance.scripts.vc2_picture_compare.compare_pictures and main (in-process)",
        ],
        "stub": ["file system and os shim (sim.simfs) bound to file_format's and vc2_picture_compare's open/os globals", "stdout/stderr captured"],
    }
    assumptions = [
        "reference = harness-side little-endian raw decoder (masking to the depth) and JSON comparison, independent of file_format.read",
        "a metadata file that is damaged (not valid UTF-8 JSON with in-range fields, judged by a harness-side reader) can never be shown to match: exit 0 is a violation, any other status or an exception is accepted",
    ]
    rule = (
        "each run = a seeded format (1x1..24x16, 4:4:4/4:2:2/4:2:0, frames/fields, bit depths 1-129 incl. non-byte "
        "multiples), in-range samples and a picture number up to 2^32-1, written by the real file_format.write to two "
        "directories of a simulated file system; read back by the real reader (must be identical); then an explicit list "
        "of at-rest faults on one side (sample-bit flips, padding-bit flips, truncation, extension, changed picture "
        "number / video parameter / coding mode, missing JSON); then the real compare_pictures / main. Judged against a "
        "harness-side raw decoder: exit 0 <=> all samples and metadata still match (padding-only flips must still be "
        "identical); differing-pixel counts per component equal the reference's; a wrong-size file never yields 0. "
        "non-trivial = >= 1 fault applied."
    )

    def generate(self, rng, idx, tier):
        cdf = rng.choice([0, 0, 1, 2])
        pcm = rng.choice([0, 0, 1])
        hs, vs = W.HSUB[cdf], W.VSUB[cdf] * (2 if pcm else 1)
        w = rng.choice([1, 2, 3, 5, 8, 12]) * hs
        h = rng.choice([1, 2, 3, 4, 8]) * vs
        if rng.random() < 0.001:
            # one very long row / column (a row of more than 64 KiB ... 1 MiB)
            if rng.random() < 0.7:
                w, h = rng.choice([16400, 33000, 70000, 8]) * hs, vs
            else:
                w, h = rng.choice([1, 8]) * hs, rng.choice([16400, 70000, 4104]) * vs
        d = rng.choice([1, 2, 3, 7, 8, 9, 10, 12, 15, 16, 17, 24, 31, 32, 33, 48, 63, 64, 65, 100, 128, 129])
        dc = rng.choice([d, d, 8, 1, 10, 64, 12])

        def exc(bits):
            # largest / an exact power of two / anything needing ``bits`` bits
            r = rng.random()
            if r < 0.5:
                return (1 << bits) - 1
            if r < 0.7:
                return 1 << (bits - 1)
            return rng.randrange(1 << (bits - 1), 1 << bits)

        lx = exc(d)
        cx = exc(dc)
        fmt = {"w": w, "h": h, "cdf": cdf, "pcm": pcm, "luma_exc": lx, "luma_off": rng.choice([0, 16]), "cd_exc": cx, "cd_off": rng.choice([0, (cx + 1) // 2])}
        npics = rng.choice([1, 1, 1, 2, 3, 4])
        r = rng.random()
        nf = 0 if r < 0.2 else 1 if r < 0.7 else rng.choice([2, 3])
        faults = []
        for _ in range(nf):
            k = rng.choice(["sample_bit", "sample_bit", "sample_bit", "padding_bit", "padding_bit", "padding_bit", "trunc_raw", "extend_raw", "json_picnum", "json_vp", "json_pcm", "json_missing", "json_trunc", "json_byte"])
            f = {"k": k, "pic": rng.randrange(npics)}
            if k in ("sample_bit", "padding_bit"):
                f.update(comp=rng.choice(["Y", "C1", "C2"]), sample=rng.randrange(1 << 16), bit=rng.randrange(64))
            elif k in ("trunc_raw", "extend_raw"):
                f["n"] = rng.choice([1, 1, 2, 8])
            elif k == "json_picnum":
                f["delta"] = rng.choice([1, -1, 1 << 31])
            elif k == "json_trunc":
                f["at"] = rng.randrange(1 << 12)
            elif k == "json_byte":
                f["at"] = rng.randrange(1 << 12)
                f["v"] = rng.choice([ord("9"), ord("x"), ord("}"), ord('"'), 0, 0xFF, ord(" "), ord("7"), ord("-")])
            elif k == "json_vp":
                f["key"] = rng.choice(["frame_rate_numer", "top_field_first", "luma_offset", "clean_width", "pixel_aspect_ratio_numer"])
            faults.append(f)
        case = {
            "fmt": fmt, "npics": npics, "pic_seed": rng.randrange(1 << 30), "pic_kind": rng.choice(["noise", "noise", "max", "zero", "ramp", "steps", "steps"]),
            "pic_num": rng.choice([0, 1, 7, (1 << 32) - 1, rng.randrange(1 << 32)]), "faults": faults, "mode": "dir" if npics > 1 or rng.random() < 0.3 else "file",
        }
        if rng.random() < 0.4:
            # file names: the index may be spelt differently in the two
            # directories and need not start at 0; directory listings come back
            # in an arbitrary (seeded) order, as from a real file system
            pats = ["picture_%d", "pic_%02d", "%d", "frame%03d", "p_%05d", "x2_%d"]
            case["names"] = [rng.choice(pats), rng.choice(pats)]
            case["first"] = rng.choice([0, 1, 8, 9, 98, 99, 999, 7])
            case["listdir_seed"] = rng.randrange(1 << 30)
        if rng.random() < 0.25:
            case["rewrite"] = True
        return case

    def shrink(self, case):
        for fl in shrink_list(case["faults"]):
            yield dict(case, faults=fl)
        if case["npics"] > 1 and all(f["pic"] == 0 for f in case["faults"]):
            yield dict(case, npics=1)
        if case["pic_kind"] != "zero":
            yield dict(case, pic_kind="zero")
        if case.get("names"):
            yield {k: v for k, v in case.items() if k not in ("names", "first", "listdir_seed")}
        if case.get("rewrite"):
            yield {k: v for k, v in case.items() if k != "rewrite"}

    def execute(self, case):
        stats = Counter()
        fmt = case["fmt"]
        events = [("case", sorted(fmt.items()), case["npics"], case["pic_seed"], case["pic_kind"], case["pic_num"], repr(case["faults"]), case["mode"], case.get("names"), case.get("first"), case.get("listdir_seed"), case.get("rewrite"))]
        vp = c23_vp(fmt)
        pcm = PictureCodingModes(fmt["pcm"])
        dims = c23_dims(fmt)
        fs = S.SimFS("/sim")
        fs.listdir_seed = case.get("listdir_seed")
        fs.dirs.update({"/sim/a", "/sim/b"})
        names = case.get("names") or ["picture_%d", "picture_%d"]
        first = case.get("first", 0)

        def nm(side, i):
            # the two directories may spell the picture index differently
            return "/sim/%s/%s" % (side, names[0 if side == "a" else 1] % (first + i))

        pics = [c23_picture(fmt, case["pic_seed"] + i, case["pic_kind"], (case["pic_num"] + i) & 0xFFFFFFFF) for i in range(case["npics"])]
        depth_class = "d%d/%d" % (dims["Y"][2], dims["C1"][2])
        key0 = "%s|cdf%d|pcm%d" % (depth_class, fmt["cdf"], fmt["pcm"])

        def viol(sig, detail, key=None):
            return Outcome(VIOLATION, events, sig=sig, detail=detail, stats=stats, nontrivial=bool(case["faults"]), key=key or key0, ticks=sum(fs.counts.values()))

        with S.installed(fs, C23_SEAMS):
            # --- write through the real writer, read back through the real reader
            try:
                for side in ("a", "b"):
                    for i, pic in enumerate(pics):
                        file_format.write(pic, vp, pcm, nm(side, i) + ".raw")
                for i, pic in enumerate(pics):
                    got, gvp, gpcm = file_format.read(nm("a", i) + ".json")
                    if got != pic or dict(gvp) != dict(vp) or gpcm != pcm:
                        return viol("C23/round-trip-differs", "file_format.read(write(x)) != x for picture %d (depths %s)" % (i, depth_class))
                    hgot, used = h_read_raw(fs.get(nm("a", i) + ".raw"), dims, strict=True)
                    if used != len(fs.get(nm("a", i) + ".raw")) or any(hgot[c] != pic[c] for c in ("Y", "C1", "C2")):
                        return viol("C23/on-disk-format", "raw file written for picture %d does not hold the samples in the documented planar little-endian layout" % i)
                if case.get("rewrite"):
                    # the files are overwritten in place with other pictures of
                    # the same format and numbers (same size, same metadata):
                    # what is read afterwards must be the new content
                    pics = [c23_picture(fmt, case["pic_seed"] + 1000 + i, "noise", (case["pic_num"] + i) & 0xFFFFFFFF) for i in range(case["npics"])]
                    for side in ("a", "b"):
                        for i, pic in enumerate(pics):
                            file_format.write(pic, vp, pcm, nm(side, i) + ".raw")
                    for side in ("a", "b"):
                        for i, pic in enumerate(pics):
                            got, gvp, gpcm = file_format.read(nm(side, i) + ".raw")
                            if got != pic:
                                return viol("C23/stale-read-after-overwrite", "picture %d of side %s was overwritten in place; reading it back returns other samples than were written" % (i, side))
                    stats["overwritten-in-place"] += 1
            except Exception as e:  # noqa: BLE001
                return viol(exc_sig("C23/write-read-raised", e), "write/read raised:\n%s" % short_tb(e))
            # --- at-rest faults on side b
            applied = []
            for f in case["faults"]:
                try:
                    lab = c23_apply(fs, nm("b", f["pic"] % case["npics"]), dims, f)
                except KeyError:
                    lab = "noop"
                applied.append(lab)
                stats["fault:" + lab] += 1
            # --- reference verdict per picture
            expect = []  # per picture: ("identical"|"different"|"meta"|"badsize", counts)
            for i in range(case["npics"]):
                ma = h_meta(fs, nm("a", i) + ".json")
                mb = h_meta(fs, nm("b", i) + ".json") or ma
                if ma == CORRUPT or mb == CORRUPT:
                    # damaged metadata can never be shown to match
                    expect.append(("corrupt", None))
                    continue
                ra, rb = fs.get(nm("a", i) + ".raw"), fs.get(nm("b", i) + ".raw")
                da, db = h_dims_from_meta(ma), h_dims_from_meta(mb)
                size_a = sum(w * h * b for (w, h, d, b) in raw_sizes(da).values())
                size_b = sum(w * h * b for (w, h, d, b) in raw_sizes(db).values())
                if len(ra) != size_a or len(rb) != size_b:
                    expect.append(("badsize", None))
                    continue
                if ma != mb:
                    expect.append(("meta", None))
                    continue
                pa, _ = h_read_raw(ra, da)
                pb, _ = h_read_raw(rb, db)
                counts = {c: sum(1 for y in range(len(pa[c])) for x in range(len(pa[c][y])) if pa[c][y][x] != pb[c][y][x]) for c in ("Y", "C1", "C2")}
                expect.append(("identical" if not any(counts.values()) else "different", counts))
            # --- the real comparison tool
            with S.captured_stdio() as (out, err):
                try:
                    if case["mode"] == "dir":
                        _sys.argv = ["vc2-picture-compare", "/sim/a", "/sim/b"]
                        rc = compare_mod.main(["/sim/a", "/sim/b"])
                        text = out.getvalue()
                    else:
                        text, rc = compare_mod.compare_pictures(nm("a", 0) + ".raw", nm("b", 0) + ".raw")
                    exc = None
                except SystemExit as e:
                    rc, exc, text = e.code, None, out.getvalue()
                except Exception as e:  # noqa: BLE001
                    rc, exc, text = "raised", e, out.getvalue()
        kinds = ",".join(sorted(set(a for a in applied if a != "noop"))) or "none"
        verdicts = ",".join(e[0] for e in expect)
        events.append(("compare", rc, verdicts, hashlib.sha256(text.encode()).hexdigest()[:12]))
        key = "%s|%s|%s|rc=%s" % (key0, kinds, verdicts, rc)
        stats["rc:%s" % (rc,)] += 1
        all_identical = all(e[0] == "identical" for e in expect)
        if exc is not None:
            if any(e[0] in ("badsize", "corrupt") for e in expect):
                # a wrong-size file: anything but "identical" is acceptable; an
                # exception is not exit 0
                stats["wrong-size-raised"] += 1
                return Outcome(OK, events, stats=stats, nontrivial=bool(case["faults"]), key=key, ticks=sum(fs.counts.values()))
            return viol(exc_sig("C23/compare-raised", exc), "picture comparison raised:\n%s" % short_tb(exc), key)
        if (rc == 0) != all_identical:
            return viol("C23/verdict-%s-expected-%s" % ("identical" if rc == 0 else "different", "identical" if all_identical else "different"),
                        "compare exited with %r but the reference says %s (faults applied: %s)\noutput: %s" % (rc, verdicts, applied, text[-400:]), key)
        # differing-pixel counts
        if case["mode"] == "file":
            blocks = [text]
        else:
            blocks = _re.split(r"Comparing [^\n]*:\n", text)[1:]
        if len(blocks) == len(expect):
            for i, ((kind, counts), block) in enumerate(zip(expect, blocks)):
                if kind == "different":
                    for c in ("Y", "C1", "C2"):
                        m = _re.search(r"%s: (Identical|Different: PSNR = [^,]*, (\d+) pixels? )" % c, block)
                        if not m:
                            return viol("C23/no-component-report", "no report line for component %s of picture %d: %r" % (c, i, block[-300:]), key)
                        got = 0 if m.group(1) == "Identical" else int(m.group(2))
                        if got != counts[c]:
                            return viol("C23/pixel-count", "picture %d component %s: tool reports %d differing pixels, reference counts %d" % (i, c, got, counts[c]), key)
                    stats["pixel_counts_checked"] += 1
                elif kind == "identical":
                    if "Pictures are identical" not in block:
                        return viol("C23/identical-not-reported", "picture %d should be reported identical: %r" % (i, block[-200:]), key)
        if "padding_bit" in applied and all_identical:
            stats["padding-only-flip-reported-identical"] += 1
        return Outcome(OK, events, stats=stats, nontrivial=bool(case["faults"]), key=key, ticks=sum(fs.counts.values()))

    def extra_evidence(self, merged):
        st = merged["stats"]
        return {
            "faults_injected": {k[6:]: v for k, v in st.items() if k.startswith("fault:")},
            "exit_statuses": {k[3:]: v for k, v in st.items() if k.startswith("rc:")},
        }


register(C23())
