"""Imports every simulation module so that its specs register themselves."""

import sim.bytechan  # noqa: F401
import sim.clichan  # noqa: F401
import sim.unitchan  # noqa: F401
import sim.fsched  # noqa: F401
import sim.apihist  # noqa: F401
import sim.csvchan  # noqa: F401
