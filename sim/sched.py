"""Baton scheduler: each task runs in a real thread, but exactly one thread
runs at a time; a thread can only be pre-empted at a yield point (a simulated
file-system operation), and *which* task proceeds is decided by a seeded policy
or by an explicit recorded schedule.  The recorded decision list is the
schedule; replaying it reproduces the execution exactly.
"""

import threading

from sim.core import HarnessError


class TaskFailed(Exception):
    pass


class TaskCrashed(BaseException):
    """Injected crash: the task (a worker process) is killed at one of its
    yield points; whatever it had written so far stays on the simulated disk."""


class _Task(object):
    __slots__ = ("tid", "fn", "thread", "go", "done", "exc", "steps")

    def __init__(self, tid, fn):
        self.tid, self.fn = tid, fn
        self.go = threading.Event()
        self.done = False
        self.exc = None
        self.steps = 0
        self.thread = None


class Policy(object):
    """Decides, at each yield point of the running task, which runnable task
    proceeds.  ``choose(current, runnable, op, step)`` returns a task id."""

    def __init__(self, kind, rng, params=None):
        self.kind, self.rng, self.p = kind, rng, params or {}
        self.prio = {}
        self.change_points = set(self.p.get("change_points", []))
        self.order = None

    def start(self, tids):
        if self.kind == "rtc":
            self.order = list(tids)
            self.rng.shuffle(self.order)
        if self.kind == "pct":
            pr = list(range(len(tids)))
            self.rng.shuffle(pr)
            self.prio = {t: pr[i] + 10 for i, t in enumerate(tids)}
            self.low = 0

    def choose(self, current, runnable, op, step):
        k = self.kind
        if current is None or current not in runnable:
            # the running task finished: somebody must be picked
            if k == "rtc":
                for t in self.order:
                    if t in runnable:
                        return t
            if k == "pct":
                return max(runnable, key=lambda t: self.prio[t])
            return self.rng.choice(sorted(runnable))
        if k == "rtc":
            return current
        if k == "random":
            return self.rng.choice(sorted(runnable))
        if k == "bursty":
            if self.rng.random() < self.p.get("p", 0.02):
                return self.rng.choice(sorted(runnable))
            return current
        if k == "coarse":
            if (op.startswith("close") or op == "mkdir" or op.startswith("open")) and self.rng.random() < self.p.get("p", 0.5):
                return self.rng.choice(sorted(runnable))
            return current
        if k == "pct":
            if step in self.change_points:
                self.low -= 1
                self.prio[current] = self.low
            return max(runnable, key=lambda t: self.prio[t])
        raise HarnessError("unknown policy %r" % (k,))


class ExplicitPolicy(object):
    """Follows a run-length encoded schedule [[tid, n_points], ...]; when it is
    exhausted (or names a finished task) the lowest runnable id proceeds."""

    kind = "explicit"

    def __init__(self, rle):
        self.rle = [list(x) for x in rle]
        self.i = 0
        self.left = self.rle[0][1] if self.rle else 0

    def start(self, tids):
        pass

    def choose(self, current, runnable, op, step):
        while self.i < len(self.rle):
            tid, _n = self.rle[self.i]
            if self.left > 0 and tid in runnable:
                self.left -= 1
                return tid
            self.i += 1
            self.left = self.rle[self.i][1] if self.i < len(self.rle) else 0
        return min(runnable)


class Baton(object):
    def __init__(self, policy, max_steps=5000000, crash=None):
        self.policy = policy
        self.crash = dict(crash or {})  # {task id: kill at its n-th yield point}
        self.crashed = []
        self.tasks = {}
        self.lock = threading.Lock()
        self.sched_evt = threading.Event()
        self.current = None
        self.step = 0
        self.max_steps = max_steps
        self.trace = []  # RLE [[tid, n]]
        self.switches = 0
        self.local = threading.local()
        self.aborted = False

    # ---- called from task threads (holding the baton)
    def yield_point(self, op, path):
        tid = getattr(self.local, "tid", None)
        if tid is None:
            return  # not a scheduled task (harness thread): no pre-emption
        if self.aborted:
            raise TaskFailed("aborted")
        if tid in self.crash:
            me_ = self.tasks[tid]
            me_.steps += 1
            if me_.steps == self.crash[tid]:
                self.crashed.append((tid, op, path))
                raise TaskCrashed("killed at yield point %d (%s %s)" % (me_.steps, op, path))
        self.step += 1
        if self.step > self.max_steps:
            self.aborted = True
            raise TaskFailed("step budget exhausted")
        runnable = set(t for t, k in self.tasks.items() if not k.done)
        nxt = self.policy.choose(tid, runnable, op, self.step)
        self._record(nxt)
        if nxt != tid:
            self.switches += 1
            me = self.tasks[tid]
            me.go.clear()
            self.current = nxt
            self.tasks[nxt].go.set()
            me.go.wait()
            if self.aborted:
                raise TaskFailed("aborted")

    def _record(self, tid):
        if self.trace and self.trace[-1][0] == tid:
            self.trace[-1][1] += 1
        else:
            self.trace.append([tid, 1])

    def _body(self, task):
        self.local.tid = task.tid
        task.go.wait()
        try:
            if not self.aborted:
                task.fn()
        except BaseException as e:  # noqa: BLE001
            task.exc = e
        finally:
            task.done = True
            # hand the baton on
            runnable = set(t for t, k in self.tasks.items() if not k.done)
            if runnable and not self.aborted:
                nxt = self.policy.choose(None, runnable, "exit", self.step)
                self._record(nxt)
                self.switches += 1
                self.current = nxt
                self.tasks[nxt].go.set()
            else:
                if self.aborted:
                    for k in self.tasks.values():
                        k.go.set()
                self.sched_evt.set()

    def run(self, fns, timeout=600):
        for tid, fn in enumerate(fns):
            self.tasks[tid] = _Task(tid, fn)
        tids = sorted(self.tasks)
        self.policy.start(tids)
        for t in self.tasks.values():
            t.thread = threading.Thread(target=self._body, args=(t,), daemon=True)
            t.thread.start()
        first = self.policy.choose(None, set(tids), "start", 0)
        self._record(first)
        self.current = first
        self.tasks[first].go.set()
        if not self.sched_evt.wait(timeout):
            self.aborted = True
            for k in self.tasks.values():
                k.go.set()
            raise HarnessError("baton scheduler: tasks did not finish within %ds (step %d)" % (timeout, self.step))
        for t in self.tasks.values():
            t.thread.join(10)
        return {tid: t.exc for tid, t in self.tasks.items()}
