"""The channel/disk fault catalogue of simulation A (DESIGN.md section 3/4).

A fault is an explicit JSON-able dict; ``apply_faults`` is a pure function of
(bytes, fault list).  The generator places faults using a *field map* obtained
from a monitored deserialisation of the clean stream (real repo code), but the
faults it emits are explicit bit/byte positions and values, so a replay file
never depends on the map.
"""

from sim.core import ensure_repo, SimFile, OutOfScope

ensure_repo()

from vc2_conformance.bitstream import (  # noqa: E402
    BitstreamReader,
    MonitoredDeserialiser,
    parse_stream,
    to_bit_offset,
)
from vc2_conformance.pseudocode.state import State  # noqa: E402
from sim import receivers as _R  # noqa: E402

# --------------------------------------------------------------------------
# bit helpers
# --------------------------------------------------------------------------


def to_bits(data):
    return "".join(format(b, "08b") for b in data)


def from_bits(bits):
    if len(bits) % 8:
        bits = bits + "0" * (8 - len(bits) % 8)
    return bytes(int(bits[i : i + 8], 2) for i in range(0, len(bits), 8))


def exp_golomb(v):
    """Unsigned interleaved exp-Golomb code of v as a bit string (A.4.3),
    written independently of the repo's writer."""
    v += 1
    n = v.bit_length() - 1
    out = []
    for i in range(n - 1, -1, -1):
        out.append("0")
        out.append("1" if (v >> i) & 1 else "0")
    out.append("1")
    return "".join(out)


# --------------------------------------------------------------------------
# applying faults
# --------------------------------------------------------------------------


def apply_fault(data, f):
    k = f["k"]
    n = len(data)
    if k == "flip":
        bit = f["bit"]
        if bit >= n * 8:
            return data
        b = bytearray(data)
        b[bit // 8] ^= 0x80 >> (bit % 8)
        return bytes(b)
    if k == "set":
        at = f["at"]
        if at >= n:
            return data
        b = bytearray(data)
        b[at] = f["val"] & 0xFF
        return bytes(b)
    if k == "burst":
        b = bytearray(data)
        for i, x in enumerate(f["xor"]):
            if f["at"] + i < n:
                b[f["at"] + i] ^= x & 0xFF
        return bytes(b)
    if k == "zero":
        b = bytearray(data)
        for i in range(f["at"], min(n, f["at"] + f["n"])):
            b[i] = f.get("val", 0)
        return bytes(b)
    if k == "trunc":
        return data[: f["at"]]
    if k == "del":
        return data[: f["at"]] + data[f["at"] + f["n"] :]
    if k == "dup":
        seg = data[f["at"] : f["at"] + f["n"]]
        return data[: f["at"] + f["n"]] + seg + data[f["at"] + f["n"] :]
    if k == "ins":
        return data[: f["at"]] + bytes.fromhex(f["hex"]) + data[f["at"] :]
    if k == "append":
        return data + bytes.fromhex(f["hex"])
    if k == "swap":
        a, b_, m = f["a"], f["b"], f["n"]
        if a > b_:
            a, b_ = b_, a
        if a + m > b_ or b_ + m > n:
            return data
        return data[:a] + data[b_ : b_ + m] + data[a + m : b_] + data[a : a + m] + data[b_ + m :]
    if k == "setbits":
        # overwrite a fixed-width big-endian field
        s, w = f["bit"], f["n"]
        if s + w > n * 8 or w == 0:
            return data
        v = f["val"] & ((1 << w) - 1)
        whole = int.from_bytes(data, "big")
        shift = n * 8 - s - w
        mask = ((1 << w) - 1) << shift
        whole = (whole & ~mask) | (v << shift)
        return whole.to_bytes(n, "big")
    if k == "putbits":
        # overwrite bits [bit, bit + len(bits01) + ones) with the given bit
        # string followed by ``ones`` 1 bits
        s, m = f["bit"], f.get("ones", 0)
        w = len(f["bits01"]) + m
        if s + w > n * 8 or w == 0:
            return data
        v = ((int(f["bits01"], 2) if f["bits01"] else 0) << m) | ((1 << m) - 1)
        whole = int.from_bytes(data, "big")
        shift = n * 8 - s - w
        mask = ((1 << w) - 1) << shift
        whole = (whole & ~mask) | (v << shift)
        return whole.to_bytes(n, "big")
    if k == "addfield":
        # add a delta to a 4-byte big-endian field (used to compensate offsets)
        at = f["at"]
        if at + 4 > n or at < 0:
            return data
        if f.get("nonzero_only") and data[at : at + 4] == b"\x00\x00\x00\x00":
            return data
        v = (int.from_bytes(data[at : at + 4], "big") + f["delta"]) & 0xFFFFFFFF
        return data[:at] + v.to_bytes(4, "big") + data[at + 4 :]
    if k == "seq":
        # a composite fault: explicit sub-faults applied in order
        for g in f["ops"]:
            data = apply_fault(data, g)
        return data
    if k == "replace":
        return data[: f["at"]] + bytes.fromhex(f["hex"]) + data[f["at"] + f["n"] :]
    if k == "reuint":
        # replace the exp-Golomb coded field occupying bits [bit, end) by the
        # code for ``val``.  Everything up to the next byte-alignment point
        # (``region_end``, a bit offset that is a multiple of 8) moves; the old
        # alignment padding (``tail_pad`` zero bits) is dropped and the region
        # re-padded with zeros.  Optionally the unit's next_parse_offset and
        # the following unit's previous_parse_offset are compensated by the
        # change in length.
        s, e, re_ = f["bit"], f["end"], f["region_end"]
        if re_ > n * 8 or e > re_ or s > e:
            return data
        bits = to_bits(data[: re_ // 8])
        newbits = bits[:s] + exp_golomb(f["val"]) + bits[e:]
        pad = f.get("tail_pad", 0)
        if pad and newbits.endswith("0" * pad):
            newbits = newbits[: len(newbits) - pad]
        region = from_bits(newbits)
        delta = len(region) - re_ // 8
        out = region + data[re_ // 8 :]
        if f.get("compensate") and delta:
            for at in f.get("next_fields", []):
                out = apply_fault(out, {"k": "addfield", "at": at, "delta": delta})
            for at in f.get("prev_fields", []):
                out = apply_fault(out, {"k": "addfield", "at": at + delta, "delta": delta})
        return out
    raise ValueError("unknown fault kind %r" % (k,))


def apply_faults(data, faults):
    for f in faults:
        data = apply_fault(data, f)
    return data


# --------------------------------------------------------------------------
# field map
# --------------------------------------------------------------------------


class Field(object):
    __slots__ = ("name", "path", "start", "end", "value", "unit", "kind")

    def __init__(self, name, path, start, end, value, unit, kind):
        self.name, self.path, self.start, self.end = name, path, start, end
        self.value, self.unit, self.kind = value, unit, kind


FIXED_WIDTH = {
    "parse_info_prefix",
    "parse_code",
    "next_parse_offset",
    "previous_parse_offset",
    "picture_number",
    "fragment_data_length",
    "fragment_slice_count",
    "fragment_x_offset",
    "fragment_y_offset",
    "qindex",
    "slice_y_length",
    "slice_c1_length",
    "slice_c2_length",
}
COEFFS = {"y_transform", "c1_transform", "c2_transform", "y_transform", "c_transform"}


class FieldMap(object):
    def __init__(self, data):
        self.fields = []
        self.units = []  # [{"start": byte, "code": int, "end": byte}]
        self.aligns = []  # [(end_bit, pad_bits)] of every byte_align
        self.complete = False
        last = [0]
        reader = BitstreamReader(SimFile(data))

        def mon(des, target, value):
            # the same size bounds as everywhere else: a history or a faulted
            # stream may declare huge slice counts
            if target in _R.BOUNDS or target == "custom_dimensions_flag":
                _R.scope_check(target, value)
            pos = to_bit_offset(*des.io.tell())
            start = last[0]
            last[0] = pos
            if target in ("padding", "padding1", "padding2") and pos % 8 == 0:
                self.aligns.append((pos, pos - start))
            if target == "padding" and des.path(target)[-2] == "parse_info":
                # new data unit begins after the alignment padding
                self.units.append({"start": pos // 8, "code": None, "pad": pos - start})
                return
            if isinstance(value, bool):
                kind = "bool"
            elif isinstance(value, int):
                if target in COEFFS:
                    kind = "coeff"
                elif target in FIXED_WIDTH:
                    kind = "fixed"
                else:
                    kind = "uint"
            else:
                kind = "blob"
            if target == "parse_code" and self.units:
                self.units[-1]["code"] = value
            if pos > start or kind in ("uint", "fixed"):
                self.fields.append(Field(target, None, start, pos, value, len(self.units) - 1, kind))

        try:
            with MonitoredDeserialiser(mon, reader) as des:
                parse_stream(des, State())
            self.complete = True
        except (Exception, OutOfScope):
            pass
        for i, u in enumerate(self.units):
            u["end"] = self.units[i + 1]["start"] if i + 1 < len(self.units) else len(data)
            # alignment padding that precedes the *next* unit belongs to this one
            u["tail_pad"] = self.units[i + 1]["pad"] if i + 1 < len(self.units) else 0
        self.by_kind = {}
        for f in self.fields:
            self.by_kind.setdefault(f.kind, []).append(f)
        self.nbytes = len(data)


_INTERESTING = {
    "parse_code": [0x00, 0x10, 0x20, 0x30, 0xC8, 0xE8, 0xCC, 0xEC, 0x08, 0xFF, 0x01],
    "major_version": [0, 1, 2, 3, 4],
    "minor_version": [0, 1, 7],
    "profile": [0, 1, 2, 3, 4],
    "level": [0, 1, 2, 3, 4, 5, 6, 7, 8, 63, 64, 65, 66, 67],
    "base_video_format": list(range(0, 25)),
    "picture_coding_mode": [0, 1, 2],
    "wavelet_index": list(range(0, 8)),
    "wavelet_index_ho": list(range(0, 8)),
    "dwt_depth": [0, 1, 2, 3, 4, 5],
    "dwt_depth_ho": [0, 1, 2, 3, 4, 5],
    "slices_x": [0, 1, 2, 3, 4, 8, 16, 17],
    "slices_y": [0, 1, 2, 3, 4, 8, 16, 17],
    "slice_prefix_bytes": [0, 1, 2, 3, 65, 1 << 16, 1 << 32, (1 << 63) - 1, 1 << 63, 1 << 64],
    "slice_size_scaler": [0, 1, 2, 3, 4, 65, 1 << 16, 1 << 32, 1 << 63, 1 << 64],
    "slice_bytes_numerator": [0, 1, 2, 5, 17, 100, 5000, 1 << 32, 1 << 63, 1 << 64],
    "slice_bytes_denominator": [0, 1, 2, 3, 7],
    "frame_width": [0, 1, 2, 3, 4, 7, 8, 16, 64, 65, 1000],
    "frame_height": [0, 1, 2, 3, 4, 7, 8, 16, 64, 65, 1000],
    "color_diff_format_index": [0, 1, 2, 3],
    "source_sampling": [0, 1, 2],
    "index": [0, 1, 2, 3, 4, 5, 6, 7, 8, 9, 10, 11, 12],
    "color_primaries_index": [0, 1, 2, 3, 4, 5],
    "color_matrix_index": [0, 1, 2, 3, 4, 5],
    "transfer_function_index": [0, 1, 2, 3, 4, 5, 6],
    "luma_excursion": [0, 1, 2, 255, 256, 1023, 65535, 1 << 20, (1 << 72) + 1, (1 << 31) - 1, (1 << 29) - 1, 1 << 31, 1 << 32, (1 << 63) - 1, 1 << 63, (1 << 64) - 1, 1 << 64],
    "color_diff_excursion": [0, 1, 2, 255, 256, 1023, 65535, 1 << 20, (1 << 72) + 1, (1 << 31) - 1, (1 << 29) - 1, 1 << 31, 1 << 32, (1 << 63) - 1, 1 << 63, (1 << 64) - 1, 1 << 64],
    "fragment_slice_count": [0, 1, 2, 3, 4, 100],
    "fragment_x_offset": [0, 1, 2, 3, 100],
    "fragment_y_offset": [0, 1, 2, 3, 100],
    "qindex": [0, 1, 4, 30, 63, 64, 100, 127, 128, 255],
}


def huge_value(rng):
    """A value whose exp-Golomb code needs 17..80 data bits, with random data
    bits (legal syntax: the code has no length limit)."""
    nb = rng.choice([17, 31, 32, 33, 34, 35, 40, 48, 63, 64, 65, 72, 80])
    return (1 << (nb - 1)) | rng.getrandbits(nb - 1)


def interesting_value(rng, f):
    cands = _INTERESTING.get(f.name)
    r = rng.random()
    if rng.random() < 0.06:
        return huge_value(rng)
    if cands and r < 0.7:
        return rng.choice(cands)
    v = f.value if isinstance(f.value, int) else 0
    if r < 0.85:
        return max(0, v + rng.choice([-2, -1, 1, 2]))
    if r < 0.95:
        return rng.randrange(0, 16)
    return rng.randrange(0, 1 << 16)


BYTE_KINDS = ["flip", "set", "burst", "zero", "trunc", "del", "dup", "ins", "swap", "append"]
CUT_VALUES = [0, 1, 2, 3, 6, 7, 8, 15, 16, 31, 63, 127, 128, 255, 256, 511, 1023, 65535]
FIELD_KINDS = ["f_coeff_long", "f_wrap_unit", "f_frag_len", "f_block_cut", "f_coeff_huge", "f_frag_alias", "f_fixed", "f_uint", "f_bool", "f_coeff", "f_offsets", "f_picnum", "f_trunc_unit", "f_unit_drop", "f_unit_dup", "f_lenbyte", "f_ld_resize"]
ALL_KINDS = BYTE_KINDS + FIELD_KINDS


def gen_fault(rng, fmap, kind, data_len):
    """Return (fault dict, sort position) or None if the kind cannot apply."""
    n = data_len
    if n == 0:
        return None
    if kind == "flip":
        bit = rng.randrange(n * 8)
        return {"k": "flip", "bit": bit}, bit // 8
    if kind == "set":
        at = rng.randrange(n)
        return {"k": "set", "at": at, "val": rng.choice([0, 0xFF, rng.randrange(256)])}, at
    if kind == "burst":
        at = rng.randrange(n)
        return {"k": "burst", "at": at, "xor": [rng.randrange(1, 256) for _ in range(rng.randrange(2, 6))]}, at
    if kind == "zero":
        at = rng.randrange(n)
        return {"k": "zero", "at": at, "n": rng.randrange(1, 9), "val": rng.choice([0, 0, 0xFF])}, at
    if kind == "trunc":
        at = rng.randrange(n)
        return {"k": "trunc", "at": at}, at
    if kind == "del":
        at = rng.randrange(n)
        return {"k": "del", "at": at, "n": rng.choice([1, 1, 2, 4, 13])}, at
    if kind == "dup":
        at = rng.randrange(n)
        return {"k": "dup", "at": at, "n": rng.choice([1, 2, 4, 13, 20])}, at
    if kind == "ins":
        at = rng.randrange(n + 1)
        m = rng.choice([1, 1, 2, 4, 13])
        return {"k": "ins", "at": at, "hex": bytes(rng.randrange(256) for _ in range(m)).hex()}, at
    if kind == "append":
        m = rng.choice([1, 2, 4, 12, 13, 14])
        hx = rng.choice([b"BBCD", b"BBCD\x10", b"BBCD\x10" + b"\x00" * 8, b"\x00", bytes(rng.randrange(256) for _ in range(m))])
        return {"k": "append", "hex": bytes(hx).hex()}, n
    if kind == "swap":
        m = rng.choice([1, 2, 4, 13])
        if n < 2 * m + 1:
            return None
        a = rng.randrange(n - 2 * m)
        b = rng.randrange(a + m, n - m + 1)
        return {"k": "swap", "a": a, "b": b, "n": m}, a
    # ---- field-aware kinds
    if fmap is None or not fmap.fields:
        return None
    if kind == "f_fixed":
        fs = fmap.by_kind.get("fixed")
        if not fs:
            return None
        f = rng.choice(fs)
        w = f.end - f.start
        if f.name in ("next_parse_offset", "previous_parse_offset"):
            val = rng.choice([0, 1, 12, 13, f.value + 1, max(0, f.value - 1), f.value + 13, rng.randrange(0, 64), 0xFFFFFFFF])
        elif f.name == "picture_number":
            val = rng.choice([f.value + 1, f.value - 1, f.value + 2, 0, 1, 0xFFFFFFFF, f.value ^ 1])
        elif f.name == "parse_info_prefix":
            val = f.value ^ (1 << rng.randrange(32))
        elif f.name in ("slice_y_length", "slice_c1_length", "slice_c2_length"):
            val = rng.choice([0, 1, f.value + 1, max(0, f.value - 1), 255, rng.randrange(256)])
        else:
            val = interesting_value(rng, f)
        return {"k": "setbits", "bit": f.start, "n": w, "val": val & ((1 << w) - 1), "field": f.name}, f.start // 8
    if kind == "f_lenbyte":
        fs = [f for f in fmap.by_kind.get("fixed", []) if f.name.startswith("slice_") or f.name == "qindex"]
        if not fs:
            return None
        f = rng.choice(fs)
        w = f.end - f.start
        val = rng.choice([0, 1, f.value + 1, max(0, f.value - 1), (1 << w) - 1, rng.randrange(1 << w)])
        return {"k": "setbits", "bit": f.start, "n": w, "val": val & ((1 << w) - 1), "field": f.name}, f.start // 8
    if kind == "f_uint":
        fs = fmap.by_kind.get("uint")
        if not fs:
            return None
        f = rng.choice(fs)
        u = fmap.units[f.unit]
        val = interesting_value(rng, f)
        nf = [u["start"] + 5] if f.unit >= 0 else []
        pf = [u["end"] + 9] if u["end"] + 13 <= fmap.nbytes else []
        region_end, tail_pad = u["end"] * 8, 0
        for (ab, pb) in fmap.aligns:
            if ab >= f.end:
                if ab <= u["end"] * 8:
                    region_end, tail_pad = ab, pb
                break
        return {
            "k": "reuint",
            "bit": f.start,
            "end": f.end,
            "val": val,
            "region_end": region_end,
            "tail_pad": tail_pad,
            "compensate": rng.random() < 0.8,
            "next_fields": nf,
            "prev_fields": pf,
            "field": f.name,
        }, f.start // 8
    if kind == "f_bool":
        fs = fmap.by_kind.get("bool")
        if not fs:
            return None
        f = rng.choice(fs)
        return {"k": "flip", "bit": f.start, "field": f.name}, f.start // 8
    if kind == "f_coeff":
        fs = fmap.by_kind.get("coeff")
        if not fs:
            return None
        f = rng.choice(fs)
        # flip a bit at/after the start of a coefficient: lengthens/shortens
        # exp-Golomb runs inside the bounded block (stays conformant in HQ)
        span = rng.choice([1, 1, 2, 8, 24])
        bit = f.start + rng.randrange(span)
        return {"k": "flip", "bit": bit, "field": f.name}, bit // 8
    if kind == "f_wrap_unit":
        # insert, in front of a data unit, a parse_info of a padding / auxiliary
        # / reserved parse code whose next_parse_offset covers nothing, exactly
        # the following unit(s), or part of one: data units "wrapped" inside the
        # payload of another (previous offsets of the rest are re-linked)
        us = [u for u in fmap.units if u["code"] is not None]
        if not us:
            return None
        k = rng.randrange(len(us))
        u = us[k]
        code = rng.choice([0x30, 0x20, 0x30, 0x20, 0x40, 0x08, 0x01, 0x60, 0xFF, 0x80])
        span = rng.choice([0, 0, u["end"] - u["start"], u["end"] - u["start"], (us[min(k + 1, len(us) - 1)]["end"] - u["start"]), rng.randrange(0, 30)])
        prev = 0
        if k > 0:
            prev = u["start"] - us[k - 1]["start"]
        pi = b"BBCD" + bytes([code]) + (13 + span).to_bytes(4, "big") + prev.to_bytes(4, "big")
        ops = [{"k": "ins", "at": u["start"], "hex": pi.hex()}]
        # the unit that now follows the inserted header sees it as its predecessor
        ops.append({"k": "setbits", "bit": (u["start"] + 13 + 9) * 8, "n": 32, "val": 13, "field": "previous_parse_offset"})
        return {"k": "seq", "ops": ops, "code": code, "span": span}, u["start"]
    if kind == "f_frag_len":
        # fragment_data_length is carried by every fragment but no rule ties it
        # to the data: any value stays conformant.  Optionally the fragment also
        # omits its next_parse_offset (0 is allowed on picture fragments), so a
        # parser cannot find the next unit from the header alone.
        fs = [f for f in fmap.by_kind.get("fixed", []) if f.name == "fragment_data_length"]
        if not fs:
            return None
        f = rng.choice(fs)
        u = fmap.units[f.unit]
        true_len = max(0, u["end"] - (f.end // 8) - 6)
        val = rng.choice([0, 1, 2, max(0, f.value - 1), f.value + 1, f.value // 2, true_len, max(0, true_len - 1), true_len // 2, 0xFFFF, rng.randrange(0, 64)])
        ops = [{"k": "setbits", "bit": f.start, "n": f.end - f.start, "val": val & 0xFFFF, "field": "fragment_data_length"}]
        if rng.random() < 0.5:
            ops.append({"k": "setbits", "bit": (u["start"] + 5) * 8, "n": 32, "val": 0, "field": "next_parse_offset"})
        return {"k": "seq", "ops": ops}, f.start // 8
    if kind == "f_block_cut":
        # make a chosen coefficient code straddle (or end exactly at) the end of
        # its length-delimited block at a chosen cut position: the block is
        # re-sized so that it ends ``c`` bits into the code (the "dangling
        # value" / unused-bits corner of bounded blocks), the stream stays framed
        fs = fmap.by_kind.get("coeff")
        if not fs:
            return None
        f = rng.choice(fs)
        if not (0 <= f.unit < len(fmap.units)):
            return None
        u = fmap.units[f.unit]
        blk = None
        scaler = 1
        for g in fmap.fields:
            if g.start >= f.start:
                break
            if g.name == "slice_size_scaler":
                scaler = g.value
            if g.unit == f.unit and g.name in ("slice_y_length", "slice_c1_length", "slice_c2_length"):
                blk = g
        if blk is None:
            return None
        hq = u["code"] in (0xE8, 0xEC)
        v = rng.choice(CUT_VALUES) if rng.random() < 0.85 else huge_value(rng)
        code = exp_golomb(v) + (rng.choice("01") if v else "")
        if hq:
            unit = 8 * max(1, scaler)
            old_end = blk.end + blk.value * unit
            if not (blk.end <= f.start < old_end) or old_end > n * 8:
                return None
            later = sum(1 for g in fs if g.unit == f.unit and f.end <= g.start < old_end)
            cands = [
                (j, c)
                for j in range(0, min(later, unit - 1) + 1)
                for c in range(1, len(code) + 1)
                if (f.start + j + c - blk.end) % unit == 0 and f.start + j + c <= old_end
            ]
            if not cands:
                return None
            j, c = rng.choice(cands)
            new_end = f.start + j + c
            bits = "1" * j + code[:c]
            ops = [
                {"k": "putbits", "bit": f.start, "bits01": bits, "ones": 0, "field": f.name},
                {"k": "setbits", "bit": blk.start, "n": 8, "val": (new_end - blk.end) // unit, "field": blk.name},
            ]
            cut = (old_end - new_end) // 8
            if cut:
                ops.append({"k": "del", "at": new_end // 8, "n": cut})
                ops.append({"k": "addfield", "at": u["start"] + 5, "delta": -cut, "nonzero_only": True})
                if u["end"] + 13 <= fmap.nbytes:
                    ops.append({"k": "addfield", "at": u["end"] + 9 - cut, "delta": -cut, "nonzero_only": True})
            return {"k": "seq", "ops": ops, "value": v if v < (1 << 20) else "huge", "cut": c, "code_bits": len(code)}, f.start // 8
        # low delay: slice_y_length counts bits; the chroma block follows directly
        width = blk.end - blk.start
        old_end = blk.end + blk.value
        if not (blk.end <= f.start < old_end) or f.start + len(code) > old_end or old_end > n * 8:
            return None
        c = rng.randrange(1, len(code) + 1)
        new_len = f.start + c - blk.end
        if new_len >= (1 << width):
            return None
        ops = [
            {"k": "putbits", "bit": f.start, "bits01": code, "ones": 0, "field": f.name},
            {"k": "setbits", "bit": blk.start, "n": width, "val": new_len, "field": blk.name},
        ]
        return {"k": "seq", "ops": ops, "value": v if v < (1 << 20) else "huge", "cut": c, "code_bits": len(code)}, f.start // 8
    if kind == "f_coeff_long":
        # the FIRST coefficient of a high-quality slice block (byte-aligned) is
        # re-coded as a value of 100..1100 data bits; the block is grown to hold
        # the code (length byte rewritten, 0xFF bytes inserted, parse offsets
        # re-linked), the rest of the block reads as zero coefficients
        fs = [f for f in fmap.by_kind.get("coeff", []) if 0 <= f.unit < len(fmap.units) and fmap.units[f.unit]["code"] in (0xE8, 0xEC)]
        if not fs:
            return None
        blocks = [g for g in fmap.by_kind.get("fixed", []) if g.name in ("slice_y_length", "slice_c1_length", "slice_c2_length") and any(f.start == g.end for f in fs)]
        if not blocks:
            return None
        blk = rng.choice(blocks)
        f = next(f for f in fs if f.start == blk.end)
        u = fmap.units[f.unit]
        scaler = 1
        for g in fmap.fields:
            if g.start >= f.start:
                break
            if g.name == "slice_size_scaler":
                scaler = g.value
        unit = 8 * max(1, scaler)
        nb = rng.choice([100, 128, 255, 256, 257, 300, 520, 600, 1100])
        v = (1 << (nb - 1)) | rng.getrandbits(nb - 1)
        code = exp_golomb(v) + rng.choice("01")
        new_len = (len(code) + unit - 1) // unit + rng.choice([0, 0, 1])
        if new_len > 255:
            return None
        old_end = blk.end + blk.value * unit
        if old_end > n * 8:
            return None
        grow = new_len - blk.value
        ops = []
        if grow > 0:
            nbytes = grow * unit // 8
            ops.append({"k": "ins", "at": old_end // 8, "hex": "ff" * nbytes})
            ops.append({"k": "addfield", "at": u["start"] + 5, "delta": nbytes, "nonzero_only": True})
            if u["end"] + 13 <= fmap.nbytes:
                ops.append({"k": "addfield", "at": u["end"] + 9 + nbytes, "delta": nbytes, "nonzero_only": True})
            ops.append({"k": "setbits", "bit": blk.start, "n": 8, "val": new_len, "field": blk.name})
            room = new_len * unit
        else:
            room = blk.value * unit
        ops.append({"k": "putbits", "bit": f.start, "bits01": code, "ones": room - len(code), "field": f.name})
        return {"k": "seq", "ops": ops, "value_bits": nb, "code_bits": len(code)}, f.start // 8
    if kind == "f_coeff_huge":
        # re-code one coefficient of a length-delimited (bounded) block of slice
        # data as a value needing 17..80 data bits and fill the rest of the block
        # with 1 bits (each a zero coefficient; reads past the end give 1s too):
        # the stream stays framed, so the validator still accepts it
        fs = fmap.by_kind.get("coeff")
        if not fs:
            return None
        f = rng.choice(fs)
        blk = None
        scaler = 1
        for g in fmap.fields:
            if g.start >= f.start:
                break
            if g.name == "slice_size_scaler":
                scaler = g.value
            if g.unit == f.unit and g.name in ("slice_y_length", "slice_c1_length", "slice_c2_length"):
                blk = g
        if blk is None:
            return None
        # HQ length fields count slice_size_scaler-byte units; the LD
        # slice_y_length counts bits
        hq = fmap.units[f.unit]["code"] in (0xE8, 0xEC) if 0 <= f.unit < len(fmap.units) else False
        nbits = blk.value * 8 * max(1, scaler) if hq else blk.value
        end = blk.end + nbits
        if not (blk.end <= f.start < end) or end > n * 8:
            return None
        v = huge_value(rng)
        code = exp_golomb(v) + rng.choice("01")
        room = end - f.start
        if len(code) > room:
            # as large a value as fits
            k = (room - 2) // 2
            if k < 1:
                return None
            v = (1 << k) | rng.getrandbits(k)
            code = exp_golomb(v - 1) + rng.choice("01")
            if len(code) > room:
                return None
        ops = [{"k": "putbits", "bit": f.start, "bits01": code, "ones": room - len(code), "field": f.name}]
        return {"k": "seq", "ops": ops, "value_bits": v.bit_length()}, f.start // 8
    if kind == "f_offsets":
        us = [u for u in fmap.units if u["code"] is not None]
        if not us:
            return None
        u = rng.choice(us)
        which = rng.choice(["next", "prev"])
        at = u["start"] + (5 if which == "next" else 9)
        cur_bits = at * 8
        val = rng.choice([0, 0, 1, 12, 13, 14, rng.randrange(0, 80)])
        return {"k": "setbits", "bit": cur_bits, "n": 32, "val": val, "field": which + "_parse_offset"}, at
    if kind == "f_picnum":
        fs = [f for f in fmap.by_kind.get("fixed", []) if f.name == "picture_number"]
        if not fs:
            return None
        f = rng.choice(fs)
        val = rng.choice([f.value + 1, f.value - 1, f.value + 2, f.value, 0xFFFFFFFF, 0])
        return {"k": "setbits", "bit": f.start, "n": 32, "val": val & 0xFFFFFFFF, "field": "picture_number"}, f.start // 8
    if kind == "f_trunc_unit":
        if not fmap.units:
            return None
        u = rng.choice(fmap.units)
        at = rng.choice([u["start"], u["start"] + rng.randrange(0, 14), u["end"]])
        at = min(at, n)
        return {"k": "trunc", "at": at}, at
    if kind == "f_unit_drop":
        if not fmap.units:
            return None
        u = rng.choice(fmap.units)
        return {"k": "del", "at": u["start"], "n": u["end"] - u["start"], "unit_code": u["code"]}, u["start"]
    if kind == "f_frag_alias":
        # rewrite the slice offsets of a continuation fragment to another pair
        # naming the same linear slice index ((x + k*slices_x, y - k)), or to a
        # neighbouring position
        sxs = [f for f in fmap.fields if f.name == "slices_x"]
        xs = [f for f in fmap.by_kind.get("fixed", []) if f.name == "fragment_x_offset"]
        if not sxs or not xs:
            return None
        fx = rng.choice(xs)
        fy = next((f for f in fmap.fields if f.name == "fragment_y_offset" and f.unit == fx.unit), None)
        prior = [f for f in sxs if f.unit < fx.unit]
        if fy is None or not prior:
            return None
        sx = prior[-1].value
        x, y = fx.value, fy.value
        cands = [(x + sx * y, 0), (x + sx, y), (x + 1, y), (x, y + 1)]
        if y > 0:
            cands += [(x + sx, y - 1)] * 3
        nx_, ny_ = rng.choice(cands)
        ops = [
            {"k": "setbits", "bit": fy.start, "n": 16, "val": ny_ & 0xFFFF, "field": "fragment_y_offset"},
            {"k": "setbits", "bit": fx.start, "n": 16, "val": nx_ & 0xFFFF, "field": "fragment_x_offset"},
        ]
        return {"k": "seq", "ops": ops}, fx.start // 8
    if kind == "f_ld_resize":
        # re-size the slices of one low-delay picture consistently: new
        # slice_bytes numerator/denominator and a slice data region of exactly
        # the total size they imply (so that the stream stays framed) — reaches
        # one-byte and zero-byte slices and slice lengths above the slice size
        cands = []
        for ui, u in enumerate(fmap.units):
            if u["code"] == 0xC8:
                fs = [f for f in fmap.fields if f.unit == ui]
                num = [f for f in fs if f.name == "slice_bytes_numerator"]
                den = [f for f in fs if f.name == "slice_bytes_denominator"]
                sx = [f for f in fs if f.name == "slices_x"]
                sy = [f for f in fs if f.name == "slices_y"]
                q = [f for f in fs if f.name == "qindex"]
                if num and den and sx and sy and q and q[0].start % 8 == 0:
                    cands.append((ui, u, num[0], den[0], sx[0].value * sy[0].value, q[0].start // 8))
        if not cands:
            return None
        ui, u, fnum, fden, nslices, data_start = rng.choice(cands)
        new_den = rng.choice([1, 1, 2, 3, 7])
        new_num = rng.choice([0, 1, 1, 2, new_den, new_den + 1, 2 * new_den, 3 * new_den + 1, 5 * new_den])
        total = (nslices * new_num) // new_den
        fill = rng.choice([0x00, 0x00, 0xFF, 0x55, rng.randrange(256)])
        old_len = u["end"] - data_start
        nf = [u["start"] + 5]
        pf = [u["end"] + 9] if u["end"] + 13 <= fmap.nbytes else []
        ops = [{"k": "replace", "at": data_start, "n": old_len, "hex": bytes([fill] * total).hex()}]
        d = total - old_len
        if d and rng.random() < 0.9:
            ops.append({"k": "addfield", "at": nf[0], "delta": d})
            for at in pf:
                ops.append({"k": "addfield", "at": at + d, "delta": d})
        region_end = data_start * 8
        pad = 0
        for (ab, pb) in fmap.aligns:
            if ab == region_end:
                pad = pb
        common = {"k": "reuint", "region_end": region_end, "tail_pad": pad, "compensate": True, "next_fields": nf, "prev_fields": [at + d for at in pf]}
        ops.append(dict(common, bit=fden.start, end=fden.end, val=new_den, field="slice_bytes_denominator"))
        ops.append(dict(common, bit=fnum.start, end=fnum.end, val=new_num, field="slice_bytes_numerator"))
        return {"k": "seq", "ops": ops, "num": new_num, "den": new_den}, u["start"]
    if kind == "f_unit_dup":
        if not fmap.units:
            return None
        u = rng.choice(fmap.units)
        return {"k": "dup", "at": u["start"], "n": u["end"] - u["start"], "unit_code": u["code"]}, u["start"]
    return None


def gen_faults(rng, fmap, data_len, n_faults, enabled):
    out = []
    for _ in range(n_faults):
        for _try in range(4):
            kind = rng.choice(enabled)
            g = gen_fault(rng, fmap, kind, data_len)
            if g is not None:
                f, pos = g
                f["kind"] = kind
                out.append((pos, len(out), f))
                break
    # apply from the end of the stream backwards so that length-changing
    # faults do not displace the positions of the faults still to be applied
    out.sort(key=lambda t: (-t[0], t[1]))
    return [f for _, _, f in out]


_FMAP_CACHE = {}


def field_map(data):
    fm = _FMAP_CACHE.get(data)
    if fm is None:
        fm = FieldMap(data)
        if len(_FMAP_CACHE) > 4096:
            _FMAP_CACHE.clear()
        _FMAP_CACHE[data] = fm
    return fm
