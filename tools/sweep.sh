#!/bin/sh
# Seed sweep: runs every check's quick tier under several VERIF_SEED values and
# reports any non-zero exit (used for soaking; evidence written by these runs is
# not committed).  usage: tools/sweep.sh "1 2 3" [tier]
cd "$(dirname "$0")/.."
SEEDS="${1:-1 2 3}"
TIER="${2:-quick}"
rc=0
for s in $SEEDS; do
  for p in C01 C02 C06 C08 C09 C10 C20 C21 C23 C24 C25 C26 C27 C28; do
    out=$(VERIF_SEED=$s ./bin/check $p --tier $TIER 2>&1 | grep -v conda)
    code=$?
    line=$(echo "$out" | grep "^$p $TIER" | tail -1)
    if echo "$out" | grep -q "VIOLATION\|HARNESS"; then
      rc=1
      echo "seed $s $p: ALARM"
      echo "$out" | grep -B3 -A12 "signature\|HARNESS" | head -60
    else
      echo "seed $s $line"
    fi
  done
done
exit $rc
