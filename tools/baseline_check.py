#!/venv/bin/python
"""Runs the repository's pinned baseline suite (guard off — there is no guard
in source) and compares the junit results with /root/.vp/BASELINE.json."""
import json, subprocess, sys, tempfile, os, xml.etree.ElementTree as ET

b = json.load(open("/root/.vp/BASELINE.json"))
out = tempfile.mkdtemp(prefix="vc2_baseline_", dir="/var/tmp")
junit = os.path.join(out, "junit.xml")
cmd = b["cmd"].replace("<file>", junit)
p = subprocess.run(cmd, shell=True, stdout=subprocess.PIPE, stderr=subprocess.STDOUT)
passed = set()
for tc in ET.parse(junit).getroot().iter("testcase"):
    if not any(ch.tag in ("failure", "error", "skipped") for ch in tc):
        passed.add("%s::%s" % (tc.get("classname"), tc.get("name")))
want = set(b["stable_pass"])
missing = sorted(want - passed)
print("baseline: %d stable-pass tests expected, %d passed, %d missing" % (len(want), len(want & passed), len(missing)))
for m in missing[:20]:
    print("  MISSING", m)
import shutil; shutil.rmtree(out, ignore_errors=True)
sys.exit(1 if missing else 0)
