#!/venv/bin/python
"""Writes corpus/codec_features_twins.csv and corpus/codec_features_twins_rev.csv:
'twin' codec configurations — pairs/triples of columns that are identical except
for ONE small thing (only the name; picture_bytes; a permutation of the
quantisation matrix values within a level; fragment size; fields vs frames of
the same picture size; signal range) — in both column orders.  A serial
test-case-generator run handles all columns in ONE process, the emitted
parallel worker commands each start from a fresh process: state that leaks from
one column into a near-identical later one (memo caches keyed too coarsely,
mutated defaults) makes the two differ.  Run once; the outputs are committed."""
import csv, io, os

here = os.path.dirname(os.path.dirname(os.path.abspath(__file__)))
rows = list(csv.reader(open(os.path.join(here, "corpus", "codec_features.csv"))))
names = rows[1][1:]
col = {n: i + 1 for i, n in enumerate(names)}


def column(base, name, **changes):
    out = {}
    for r in rows:
        key = r[0].strip()
        if key and not key.startswith("#"):
            out[key] = r[col[base]]
    out["name"] = name
    out.update({k: str(v) for k, v in changes.items()})
    return out


cols = [
    column("minimal", "minimal"),
    column("minimal", "minimal_twin"),
    column("minimal", "minimal_pb", picture_bytes=40),
    column("minimal", "qm_a", quantization_matrix="0 1 2 3"),
    column("minimal", "qm_b", quantization_matrix="0 3 2 1"),
    column("minimal", "qm_c", quantization_matrix="0 2 3 1"),
    column("fields", "fields"),
    column("lossless", "lossless"),
    column("lossless", "lossless_10bit", luma_offset=64, luma_excursion=876, color_diff_offset=512, color_diff_excursion=896),
    column("ld", "ld"),
    column("ld", "ld_pb", picture_bytes=48),
    # an irregular low-delay geometry: horizontal-only transform, uneven tiny
    # slices filled to within a few bits
    column("ld", "ld_irregular", frame_width=12, frame_height=6, clean_width=12, clean_height=6, dwt_depth=0, dwt_depth_ho=1, slices_x=2, slices_y=2, picture_bytes=16),
    column("frag", "frag"),
    column("frag", "frag2", fragment_slice_count=2),
    # free-text names that differ only in punctuation (distinct names, distinct
    # configurations: they must get distinct output directories)
    column("minimal", "tw 4:4:4"),
    column("minimal", "tw 4_4_4", picture_bytes=40),
    column("minimal", "tw 4.4.4", picture_bytes=56),
    # a column using a REAL dimension of a standard format (176 = QSIF/QCIF
    # width) ahead of tiny custom-sized ones: whatever the header generator
    # remembers from ranking base video formats for it must not change the
    # choice made for the later columns
    column("minimal", "w176", frame_width=176, clean_width=176, picture_bytes=200),
    column("minimal", "after_w176"),
]


def write(path, cols):
    out = io.StringIO()
    w = csv.writer(out, lineterminator="\n")
    for r in rows:
        key = r[0].strip()
        if key and not key.startswith("#"):
            w.writerow([r[0]] + [c[key] for c in cols])
        else:
            w.writerow([r[0]] + [""] * len(cols))
    open(path, "w").write(out.getvalue())


write(os.path.join(here, "corpus", "codec_features_twins.csv"), cols)
write(os.path.join(here, "corpus", "codec_features_twins_rev.csv"), cols[::-1])
print("wrote %d columns" % len(cols))
