#!/venv/bin/python
"""Evaluate a seeded mutant (/verif/seeded/<id>/patch.diff + demo.py) against
the checks WITHOUT touching /repo: a scratch worktree of /repo's HEAD is
created outside /repo and /verif, the patch applied there, and the checks run
with VERIF_REPO=<worktree> VERIF_OUT=<scratch>.  The worktree is removed
afterwards.

  tools/eval_mutant.py <mutant-dir> [--checks C01,C02] [--tier quick] [--suite]
"""
import argparse, json, os, shutil, subprocess, sys, tempfile, time

ap = argparse.ArgumentParser()
ap.add_argument("mutant")
ap.add_argument("--checks", default="")
ap.add_argument("--tier", default="quick")
ap.add_argument("--suite", action="store_true", help="also run the repository's test suite on the mutant")
ap.add_argument("--runs", default="")
a = ap.parse_args()
mdir = os.path.abspath(a.mutant)
meta = json.load(open(os.path.join(mdir, "meta.json"))) if os.path.exists(os.path.join(mdir, "meta.json")) else {}
checks = [c for c in a.checks.split(",") if c] or meta.get("checks_expected", []) or [meta.get("property")]
scratch = tempfile.mkdtemp(prefix="vc2_mut_", dir="/var/tmp")
wt = os.path.join(scratch, "wt")
res = {"mutant": os.path.basename(mdir), "checks": {}}
try:
    subprocess.check_call(["git", "-C", "/repo", "worktree", "add", "-q", "--detach", wt, "HEAD"])
    subprocess.check_call(["git", "-C", wt, "apply", os.path.join(mdir, "patch.diff")])
    demo = os.path.join(mdir, "demo.py")
    if os.path.exists(demo):
        r1 = subprocess.run(["/venv/bin/python", demo, wt], stdout=subprocess.PIPE, stderr=subprocess.STDOUT, timeout=1800)
        r0 = subprocess.run(["/venv/bin/python", demo, "/repo"], stdout=subprocess.PIPE, stderr=subprocess.STDOUT, timeout=1800)
        res["demo_with_change"], res["demo_on_repo"] = r1.returncode, r0.returncode
        print("demo: with change -> %d, on /repo -> %d" % (r1.returncode, r0.returncode))
    if a.suite:
        b = json.load(open("/root/.vp/BASELINE.json"))
        junit = os.path.join(scratch, "junit.xml")
        cmd = b["cmd"].replace("<file>", junit).replace("cd /repo", "cd %s" % wt)
        env = dict(os.environ, PYTHONPATH=wt)
        subprocess.run(cmd, shell=True, env=env, stdout=subprocess.PIPE, stderr=subprocess.STDOUT)
        import xml.etree.ElementTree as ET
        passed = set()
        for tc in ET.parse(junit).getroot().iter("testcase"):
            if not any(ch.tag in ("failure", "error", "skipped") for ch in tc):
                passed.add(("%s::%s" % (tc.get("classname"), tc.get("name"))).replace(wt, "/repo"))
        missing = sorted(set(b["stable_pass"]) - passed)
        res["suite_missing"] = missing
        print("suite: %d of %d stable-pass tests pass on the mutant" % (len(b["stable_pass"]) - len(missing), len(b["stable_pass"])))
    env = dict(os.environ, VERIF_REPO=wt, VERIF_OUT=os.path.join(scratch, "out"))
    for c in checks:
        t0 = time.time()
        cmd = [os.path.join(os.path.dirname(os.path.dirname(os.path.abspath(__file__))), "bin", "check"), c, "--tier", a.tier]
        if a.runs:
            cmd += ["--runs", a.runs]
        p = subprocess.run(cmd, env=env, stdout=subprocess.PIPE, stderr=subprocess.STDOUT)
        out = p.stdout.decode(errors="replace")
        sigs = [l[len("violation signature: "):] for l in out.splitlines() if l.startswith("violation signature: ")]
        res["checks"][c] = {"exit": p.returncode, "signatures": sigs, "wall_s": round(time.time() - t0, 1)}
        print("%s: exit %d %s (%.0fs)" % (c, p.returncode, sigs[:3], time.time() - t0))
        if p.returncode == 3:
            print(out[-1500:])
    res["suite_missing"] = res.get("suite_missing", [])[:10]
    print("RESULT " + json.dumps(res))
finally:
    subprocess.call(["git", "-C", "/repo", "worktree", "remove", "--force", wt])
    shutil.rmtree(scratch, ignore_errors=True)
