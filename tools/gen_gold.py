#!/venv/bin/python
"""Writes corpus/gold/*.vc2 + corpus/gold/index.json: a small frozen corpus of
conformant streams produced by the real encoder/serialiser of the tree it is
run on (run once on the unchanged tree; the outputs are committed).  Simulation
A draws a few per cent of its workloads from it, so that a change which breaks
the SENDER (encoder/serialiser) for some class of streams cannot hide a
divergence of the receivers on that class.  A corpus item is data, not code:
it is judged through the same oracles as live workloads."""
import json, os, sys

here = os.path.dirname(os.path.dirname(os.path.abspath(__file__)))
sys.path.insert(0, here)
if hasattr(sys, "set_int_max_str_digits"):
    sys.set_int_max_str_digits(0)
from sim import core

core.ensure_repo()
from sim import workloads as W, receivers as R

out = os.path.join(here, "corpus", "gold")
os.makedirs(out, exist_ok=True)
index = {}


def add(name, data, desc):
    v = R.run_validator(data)
    if v.verdict != "accept":
        print("skip (not accepted on this tree):", name, v.verdict)
        return
    with open(os.path.join(out, name + ".vc2"), "wb") as f:
        f.write(data)
    index[name] = desc


for i, cfg in enumerate(W.wide_configs()):
    add("wide%02d" % i, W.encode_stream(cfg), {"kind": "wide", "w": cfg["w"], "h": cfg["h"], "bits": cfg["luma_exc"].bit_length()})
pool = W.config_pool(core.DEFAULT_SEED, "A", 640)
n = 0
for i in range(640):
    if n >= 48:
        break
    try:
        data = W.encode_stream(pool[i])
    except W.WorkloadError:
        continue
    if len(data) > 1500:
        continue
    add("cfg%03d" % i, data, {"kind": "cfg", "profile": pool[i]["profile"], "frag": pool[i]["frag"], "pcm": pool[i]["pcm"], "mix": bool(pool[i].get("mix"))})
    n += 1
for i, ws in enumerate([[0, 1], [0, 6, 0], [0, 7], [1, 0], [0, 3, 0], [0, 4], [0, 2, 6], [7, 1]]):
    try:
        data = W.encode_twinseq(dict(pool[i * 7 + 3], nseq=1, extras=None, mix=None, npics=2), ws)
    except W.WorkloadError:
        continue
    add("twin%02d" % i, data, {"kind": "twins", "w": ws})
json.dump(index, open(os.path.join(out, "index.json"), "w"), indent=1, sort_keys=True)
print("wrote", len(index), "streams,", sum(os.path.getsize(os.path.join(out, n + ".vc2")) for n in index), "bytes")
