#!/venv/bin/python
"""Regenerates /verif/MANIFEST.json from the table below (kept in one place so
that the manifest is always schema-valid and in step with what is built)."""
import json
import os
import sys

HERE = os.path.dirname(os.path.dirname(os.path.abspath(__file__)))

BASELINE = "cd /repo && /venv/bin/python -m pytest -ra -q -p no:cacheprovider --timeout=900 --continue-on-collection-errors"

NA_PURE = {
    "C03": "pure function of (configuration, pictures): no schedule, clock, fault or interleaving for a simulator to choose; exercised only as the control arm of simulations A/B (a failure there is a PRECONDITION, not a verdict)",
    "C04": "pure transform/packing arithmetic of (configuration, picture); nothing crosses a seam under faults",
    "C05": "pure function of the codec configuration; the generators run for real inside C24's simulation but only schedule-independence is asserted there",
    "C07": "pure function of the bitstream description; no property speaks about a crash between autofill's write and patch phases, so injecting one would over-demand",
    "C11": "integer arithmetic identity over all inputs; deciding it wants enumeration/SMT/proof, which are other technique families",
    "C12": "integer arithmetic bound over all inputs; no seam, history or schedule",
    "C13": "integer arithmetic identity over sizes/depths/slice counts; no seam, history or schedule",
    "C14": "encoder rate control is a pure function of (configuration, picture)",
    "C15": "sequence-header generation is a pure function of the configuration",
    "C16": "level-table solving is a pure function of (level table, configuration)",
    "C17": "set algebra and CSV parsing of a static table: a pure function of its inputs",
    "C18": "language equivalence of a pure matcher over all patterns; the real level patterns are decided through C01, whose reference model encodes them independently",
    "C19": "pure search function of (required symbols, patterns); no seam, history or schedule",
    "C22": "picture generators are pure functions of the video format",
}

# property -> dict(sim, design_ref, technique, text, note)
CLAIMS = {}


def claim(pid, sim, ref, technique, text, note):
    CLAIMS[pid] = dict(sim=sim, ref=ref, technique=technique, text=text, note=note)


claim(
    "C02",
    "A (byte channel)",
    "DESIGN.md §4, §8 C02",
    "deterministic simulation: seeded fault-sequence search on the byte channel between real encoder/serialiser and the real validating decoder",
    "Seeded search over fault sequences (truncation/EOF at arbitrary points, stored bit/byte corruption, range loss/duplication/insertion/swap, field-aware overwrites, data-unit drop/duplication) applied to real encoder output for seeded small configurations; the real validator reads the result through a simulated file. A minority of runs enumerate every truncation point / single-bit flip / one-byte deletion of a window of one sampled stream, one fault at a time. Every run is one exactly repeatable execution; violations are minimised and replayed in a fresh interpreter (with the worker process's earlier runs when the violation needs them). Sampling: a clean batch is evidence, not proof.",
    "Assumes the scope bounds (frames of <=2^15 luma samples with each dimension <=2^15, transform depths <=4, <=16x16 slices, excursions <=2^72; nothing else is bounded) implemented by wrapping the decoder's level-constraint assertion in the harness process; SimFile stands in for real files; faults are at rest (persistent).",
)

_A_NOTE = "Assumes the scope bounds (frames of <=2^15 luma samples with each dimension <=2^15, transform depths <=4, <=16x16 slices, excursions <=2^72; nothing else is bounded) enforced in the harness process only; SimFile/SimFS stand in for real files; faults are at rest (every receiver sees the same faulted bytes). Sampling, not proof."

claim(
    "C06",
    "A (byte channel)",
    "DESIGN.md §4, §8 C06",
    "deterministic simulation: seeded fault-sequence search on stored streams, round trip through the real deserialiser and serialiser",
    "Seeded search over fault sequences applied to real encoder output (including padding/auxiliary units), weighted towards parse offsets, header varints, slice length bytes and payload bits; every faulted stream the real Deserialiser parses to completion is re-serialised by the real Serialiser and deserialised again; bytes and descriptions must be identical. Unparseable inputs are outside the property's domain and are discarded (counted).",
    _A_NOTE,
)
claim(
    "C08",
    "A (byte channel)",
    "DESIGN.md §4, §8 C08",
    "deterministic simulation: seeded fault-sequence search; differential oracle between the real validator (state tapped at picture_decode) and the real deserialiser with harness-side dequantisation/DC prediction",
    "Seeded search over fault sequences (mostly slice payload bits, length bytes, header fields) on real encoder output; for every stream the real validator still accepts, the real deserialiser (plain, and driven the way the viewer drives it: seek back and re-read every value) must list the same data units, parse parameters, decoded video parameters, transform parameters and quantisation matrix, and its coefficients (placed, dequantised and DC-predicted by independent harness code) must equal the validator's transform data captured at picture_decode.",
    _A_NOTE + " Slice geometry helpers are shared between both parsers and the oracle.",
)
claim(
    "C09",
    "A (byte channel)",
    "DESIGN.md §4, §8 C09",
    "deterministic simulation: seeded fault-sequence search producing accepted streams with arbitrary coefficient payloads; per-picture invariants on the output callback",
    "Seeded search over fault sequences on real encoder output; for every stream the real validator accepts, every picture delivered to the output callback must have the component sizes implied by the decoded header and coding mode (harness arithmetic), integer samples within [0, 2^depth-1], the picture number coded in the raw bytes of its data unit, and there must be exactly one callback per picture unit / first fragment.",
    _A_NOTE,
)
claim(
    "C25",
    "A + C (byte channel, simulated file system)",
    "DESIGN.md §4, §6, §8 C25",
    "deterministic simulation: validator command run in-process on a simulated file system over seeded faulted streams; reference = library validator on the same bytes + harness-side raw/JSON reader",
    "Seeded search over fault sequences, --output templates (incl. dotted directories, precision-style padding), status-line settings and terminal widths (>= 10 columns); vc2-bitstream-validator main() runs in-process with its open/os (and file_format's open) bound to a simulated file system. Exit status must be 0 iff the library accepts and 2 iff it raises a ConformanceError (never 3 or 1); on 0 exactly one raw/json pair per callback picture, numbered from 0, with contents equal to the decoder output as read by an independent harness reader; on 2 a located, non-empty explanation.",
    _A_NOTE + " Output-side I/O errors (missing directory, full disk) are not injected: the statement quantifies over input files only.",
)
claim(
    "C26",
    "A + C (byte channel, simulated file system and clock)",
    "DESIGN.md §4, §6, §8 C26",
    "deterministic simulation: viewer run in-process on a simulated file system with a seeded simulated clock over seeded faulted streams and random bytes",
    "Seeded search over fault sequences and random bytes; vc2-bitstream-viewer main() runs in-process with open/os/time bound to the simulated file system and a simulated clock that jumps forwards, backwards or stands still, and with the status-line interval randomised. Under default display options main() must return 0, 2, 3 or 4, never 255, and raise nothing. A sampled-options arm is observe-only and never judged. One run in 100 executes the real command in a fresh interpreter under a seeded environment (COLUMNS >= 10, LINES, TERM, LC_ALL). A reader that exceeds a read-call budget proportional to the file length is reported as non-terminating.",
    _A_NOTE + " Scope decided by a pre-scan with the real MonitoredDeserialiser.",
)

_B_NOTE = "Data-unit bodies are real encoder output for tiny formats and are only placed under a governing header that frames them (composition rule); the level VALUE table (LEVEL_CONSTRAINTS) is replaced in the harness process by one row per level (level fixed, everything else permitted) so that tiny pictures can carry any level number, while the level ORDERING patterns (LEVEL_SEQUENCE_RESTRICTIONS) and symbol_re are real; a minority arm of C01 uses QSIF525 pictures under the REAL level-1 value table. Sampling, not proof."

claim(
    "C01",
    "B (data-unit channel)",
    "DESIGN.md §5, §8 C01",
    "deterministic simulation: seeded search over data-unit histories (drop/duplicate/reorder/insert/substitute/truncate + offset and numbering faults) checked against an independent executable reference model",
    "Seeded search over histories of up to 14 data units (sequence headers identical/alternative/differing, pictures, first and continuation fragments, padding, auxiliary data, end of sequence) for seeded configurations, profiles, major versions and levels 0, 1-7, 64-66, with structural channel faults, a repair pass and layered parse-offset / picture-number faults. The real validator's verdict must equal that of a ~150-line reference model written from the statement and ST 2042-1 (with its own level-ordering predicates), and every rejection must be a ConformanceError.",
    _B_NOTE,
)
claim(
    "C10",
    "B (data-unit channel, sequence histories)",
    "DESIGN.md §5, §8 C10",
    "deterministic simulation: seeded search over lists of sequences from different configurations; isolation differential against fresh validator instances",
    "Seeded search over lists of 1-5 sequences drawn from different configurations (profile, version, level family, fragments, field coding, numbering), 'twin' lists (one configuration with mid-grey pictures and one thing changed per sequence) and, once in 8000 runs, sequences carrying 70 KB - 1.1 MB of padding, with an optional non-conformant sequence at a seeded position. Reference: each sequence validated alone by a fresh real validator. The concatenation must be accepted with exactly the concatenated pictures when all are accepted alone, and rejected with the earlier sequences' pictures delivered unchanged otherwise.",
    _B_NOTE,
)

claim(
    "C23",
    "C (simulated file system, at-rest faults)",
    "DESIGN.md §6, §8 C23",
    "deterministic simulation: raw/JSON picture files written by the real writer to a simulated file system, seeded at-rest fault lists, real reader and comparison tool judged against a harness-side raw decoder",
    "Seeded search over formats (sizes, subsampling, coding modes, bit depths 1-129 incl. non-byte multiples and exact power-of-two excursions), in-range samples, picture numbers up to 2^32-1 and explicit at-rest fault lists (sample-bit vs padding-bit flips, truncation/extension, changed, truncated or corrupted metadata, missing JSON). The real file_format.write/read must round-trip; vc2-picture-compare (function and main, on files and directories) must exit 0 exactly when an independent little-endian reference decoder finds all samples and metadata equal, and report the reference's differing-pixel counts.",
    "SimFS stands in for the disk; for metadata a harness-side reader finds damaged (invalid JSON / out-of-range fields) only 'never exit 0' is asserted; behaviour for missing directories is not asserted. Sampling, not proof.",
)
claim(
    "C24",
    "C (simulated file system + baton scheduler + fresh-interpreter arm)",
    "DESIGN.md §6, §8 C24",
    "deterministic simulation: worker commands as baton-scheduled threads on a simulated file system under seeded scheduling policies (random, run-to-completion permutations, PCT, coarse, bursty), plus sequential fresh-interpreter runs (single column, and multi-column serial process vs worker processes) under seeded PYTHONHASHSEEDs and command orders",
    "Seeded search over interleavings: the worker commands the real CLI emits with --parallel run as tasks that can be pre-empted at every simulated file-system operation; a seeded policy decides who runs; the final tree must equal the real serial run's tree byte for byte and no task may raise. Every 80th run executes the same commands in fresh interpreters, sequentially in a seeded permuted order with seeded hash seeds, on a real scratch directory, and compares with the in-process serial tree; another every-80th run generates several near-identical ('twin') columns in ONE fresh serial process and compares with the emitted worker commands run in separate fresh processes. The recorded schedule (run-length list of task choices) is the replay.",
    "Threads stand in for worker processes (sound only if the library keeps no process-global mutated state; backed by the fresh-interpreter arm). Pre-emption only at file-system operations. Natural pictures swapped for the test-suite's small ones; eight tiny codec columns (corpus/codec_features.csv) and thirteen twin columns (corpus/codec_features_twins*.csv). Sampling, not proof.",
)

_D_NOTE = "Degenerate single-node case of the technique: no scheduler, clock or multi-party dimension; a seeded operation/fault history, an executable reference model (or differential oracle), shrinking and exact replay. If a reviewer regards this as outside the family, this is the check to discount. Sampling, not proof."

claim(
    "C20",
    "D (API-call histories, single node)",
    "DESIGN.md §7, §8 C20",
    "seeded operation-history search vs reference model (single node, no scheduler): write/read/seek/tell histories on BitstreamWriter, BitstreamReader and the validator's reader over simulated files incl. truncated copies (EOF instant)",
    "Seeded search over histories of primitive writes (bits, fixed-width and byte literals, bit arrays of either bit-endianness, byte strings, exp-Golomb values up to 2^70, in and out of range), bounded blocks of positive/zero/negative length with values running past their end, byte-aligned seek-back patches, flushes and tells, then the mirrored read history on both readers over the written bytes and over a truncated copy, then seeks and re-reads. A list-of-bits model predicts every value, position, unused-bit count, error class and the EOF instant.",
    _D_NOTE + " Negative block lengths are checked on the reader/writer pair only (unreachable for the validator; observation O3).",
)
claim(
    "C21",
    "D (API-call histories, single node)",
    "DESIGN.md §7, §8 C21",
    "seeded program/history search with round-trip differential oracle and expected-error rules (single node, no scheduler) over random serdes programs",
    "Seeded search over random serdes programs (primitives, lists, nested typed/untyped sub-descriptions, bounded blocks, byte alignment, computed values, default tables) run by the real Deserialiser on seeded random bit strings and by the real Serialiser on the result, with one history fault per run (truncated input, deleted/defaulted value, unused value or list element, reused target, unclosed block/sub-description). Round trips must reproduce the consumed bits and an equal description; typed contexts must be reachable as their fixeddict type; each fault must raise the documented error class.",
    _D_NOTE,
)
claim(
    "C27",
    "D (API-call histories, single node)",
    "DESIGN.md §7, §8 C27",
    "seeded operation-history search vs plain-dict reference model (single node, no scheduler) over every fixeddict type, incl. pickle and the worker-command transport",
    "Seeded search over histories of construction, item assignment, setdefault, update and in-place merge (from mappings, pairs, keywords and fixed-entry dictionaries of other types), copy, delete and pickle round trips (pickle protocols 0-5 and the worker encode/decode transport) on every fixeddict type the library defines and on instances of plain subclasses of them, with declared and undeclared keys and ordinary and exotic values; after every operation the key set must stay within the declared keys, undeclared keys must raise FixedDictKeyError, content must equal a plain-dict model, and copies/unpickled objects must be equal and of the same type.",
    _D_NOTE,
)
claim(
    "C28",
    "A' (text channel on a stored configuration file)",
    "DESIGN.md §8 C28",
    "seeded storage-fault search (character/cell/line level) on the stored codec-features CSV files with a domain oracle; weakest fit of the technique (no scheduler or clock)",
    "Seeded search over lists of storage faults on three stored CSV files (truncation at any character, dropped/duplicated/swapped lines, overwritten cells, cells copied between columns, added rows/columns, inserted quotes/NUL/BOM, CR/LF changes) delivered exactly as the CLI delivers them (UTF-8 bytes through a utf-8-sig TextIOWrapper). read_codec_features_csv must return configurations inside their documented domains or raise InvalidCodecFeaturesError; any other exception or an out-of-domain value is a violation.",
    "Weakest fit: a configuration file at rest is the only seam; inputs stay valid UTF-8 and below 64 KiB. Sampling, not proof.",
)

NOT_BUILT = "check not built yet in this tree (planned: DESIGN.md §8); not claimed until it runs clean"


def main():
    props = [json.loads(l)["id"] for l in open(os.path.join(HERE, "properties.jsonl"))]
    checks = []
    na = []
    for pid in props:
        if pid in CLAIMS:
            c = CLAIMS[pid]
            checks.append(
                {
                    "property_id": pid,
                    "quick_cmd": "./bin/check %s --tier quick" % pid,
                    "thorough_cmd": "./bin/check %s --tier thorough" % pid,
                    "evidence_file": "/verif/evidence/%s.json" % pid,
                    "replay_cmd_template": "./bin/check replay {path}",
                    "engine": "sim",
                    "level_claimed": {"category": "exploration", "text": c["text"], "design_ref": c["ref"]},
                    "level_note": c["note"],
                    "technique": c["technique"],
                }
            )
        elif pid in NA_PURE:
            na.append({"property_id": pid, "reason": NA_PURE[pid]})
        else:
            na.append({"property_id": pid, "reason": NOT_BUILT})
    manifest = {
        "version": 1,
        "setup_cmd": "./bin/setup",
        "hooks": {
            "guard": "VC2_CONFORMANCE_VERIF",
            "enable": "no source hooks: every seam (file objects, open/os/time/makedirs module globals of the script modules, the decoder's level-constraint assertion, picture_decode/sequence_header taps) is injected in the harness process by rebinding module globals; /repo is imported from its working tree unmodified",
            "baseline_off_cmd": BASELINE,
            "source_commits": [],
            "add_only": True,
        },
        "engines": [
            {
                "name": "sim",
                "path": "/verif/sim",
                "serves_properties": sorted(CLAIMS),
                "kind_free_text": "in-process deterministic simulator: seeded PRNG per run, simulated files/file system/clock, fault catalogue, baton-thread scheduler, reference models, minimiser, exact replay",
            }
        ],
        "checks": checks,
        "not_applicable": na,
        "notes": "See DESIGN.md. Exit codes: 0 held / 1 VIOLATION (replay file) / 3 harness problem (never a verdict). VERIF_SEED selects the seed (default 20260921); VERIF_WORKERS the worker count (never changes a result).",
    }
    with open(os.path.join(HERE, "MANIFEST.json"), "w") as f:
        json.dump(manifest, f, indent=1)
        f.write("\n")
    try:
        import jsonschema

        jsonschema.validate(manifest, json.load(open("/root/.vp/MANIFEST.schema.json")))
        print("MANIFEST.json valid: %d checks, %d not applicable" % (len(checks), len(na)))
    except ImportError:
        print("MANIFEST.json written (jsonschema not available here)")


if __name__ == "__main__":
    sys.exit(main())
