#!/venv/bin/python
"""Runs every seeded mutant under /verif/seeded against the checks its
meta.json expects to catch it (quick tier) and prints a table; writes
/verif/seeded/RESULTS.json.  Uses scratch worktrees (tools/eval_mutant.py);
never touches /repo."""
import json, os, subprocess, sys, glob

here = os.path.dirname(os.path.dirname(os.path.abspath(__file__)))
rows = []
only = sys.argv[1] if len(sys.argv) > 1 else ""  # e.g. "M9-" : re-run these only and merge into RESULTS.json
if only and os.path.exists(os.path.join(here, "seeded", "RESULTS.json")):
    rows = [r for r in json.load(open(os.path.join(here, "seeded", "RESULTS.json"))) if not r["mutant"].startswith(only)]
for d in sorted(glob.glob(os.path.join(here, "seeded", "M*"))):
    if only and not os.path.basename(d).startswith(only):
        continue
    meta = json.load(open(os.path.join(d, "meta.json")))
    if str(meta.get("status", "")).startswith(("rejected", "known-miss")):
        print(meta["id"], "skipped (%s)" % meta["status"])
        continue
    p = subprocess.run([os.path.join(here, "tools", "eval_mutant.py"), d], stdout=subprocess.PIPE, stderr=subprocess.STDOUT)
    out = p.stdout.decode(errors="replace")
    line = [l for l in out.splitlines() if l.startswith("RESULT ")]
    if not line:
        rows.append({"mutant": meta["id"], "error": out[-500:]})
        print(meta["id"], "ERROR")
        continue
    r = json.loads(line[-1][7:])
    caught = sorted(c for c, v in r["checks"].items() if v["exit"] == 1)
    rows.append({"mutant": meta["id"], "property": meta["property"], "demo_with_change": r.get("demo_with_change"), "demo_on_repo": r.get("demo_on_repo"),
                 "checks_run": sorted(r["checks"]), "caught_by": caught, "signatures": {c: v["signatures"][:3] for c, v in r["checks"].items()}})
    print("%-8s demo %s/%s  caught by %s" % (meta["id"], r.get("demo_with_change"), r.get("demo_on_repo"), ",".join(caught) or "NONE"))
    sys.stdout.flush()
rows.sort(key=lambda r: r["mutant"])
json.dump(rows, open(os.path.join(here, "seeded", "RESULTS.json"), "w"), indent=1)
missed = [r["mutant"] for r in rows if not r.get("caught_by")]
print("caught %d of %d; missed: %s" % (len(rows) - len(missed), len(rows), missed))
