#!/bin/sh
# Runs every check's thorough tier once (soak); prints one line per check and
# any alarm.  Evidence written by this run goes to $VERIF_OUT (not committed).
# usage: tools/thorough_all.sh [seed] ["C01 C02 ..."]
cd "$(dirname "$0")/.."
SEED="${1:-20260921}"
PROPS="${2:-C24 C01 C02 C06 C08 C09 C10 C25 C26 C23 C20 C21 C27 C28}"
rc=0
for p in $PROPS; do
  out=$(VERIF_SEED=$SEED ./bin/check $p --tier thorough 2>&1 | grep -v conda)
  if echo "$out" | grep -q "VIOLATION\|HARNESS"; then
    rc=1
    echo "seed $SEED $p thorough: ALARM"
    echo "$out" | grep -B3 -A14 "signature\|HARNESS" | head -80
  else
    echo "seed $SEED $(echo "$out" | grep "^$p thorough" | tail -1)"
  fi
done
exit $rc
